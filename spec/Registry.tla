------------------------------ MODULE Registry ------------------------------
(***************************************************************************)
(* C14 - the WaterNetworkModel as an abstract data type: primary data      *)
(* (nodes, links, patterns, curves, sources, controls), the edit           *)
(* operations of the public API with their refusal semantics, and the      *)
(* VIEWS a user can observe (name lists, typed indexes, adjacency, usage   *)
(* records) defined declaratively from the primary data.  The real model   *)
(* keeps those views as separately maintained indexes; the replay harness  *)
(* performs every history TLC generates on a real WaterNetworkModel and    *)
(* compares its projection with View after every single operation.         *)
(***************************************************************************)
EXTENDS Integers, Sequences, FiniteSets, TLC, Json

CONSTANTS NodeNames, LinkNames, PatNames, CurveNames, SrcNames, CtlNames,
          Preload,      \* 0: histories start from the empty model; 1: from a small populated model (so that link operations,
                        \* controls and re-assignments are enabled from the first step; the harness builds the same model)
          Record,       \* TRUE: keep the history (for replay); FALSE: pure state space (model checking)
          MaxLen        \* bound on the history length when recording

VARIABLES nodes,     \* name -> [type: "J"|"T"|"R", pats: set of pattern names, curve: "" or curve name]
          links,     \* name -> [type: "pipe"|"hpump"|"ppump"|"PRV"|"TCV", a, b, pat, curve]
          pats,      \* set of pattern names
          curves,    \* name -> the set of types ("HEAD", "VOLUME") the name was ever added with (see ReAddCurve)
          srcs,      \* name -> [node, pat]
          ctls,      \* name -> set of required element names
          out,       \* outcome of the last operation: "ok" | "refused"
          hist       \* sequence of [op, args, out, view]
vars == <<nodes, links, pats, curves, srcs, ctls, out, hist>>
data == <<nodes, links, pats, curves, srcs, ctls>>

Dom(f) == DOMAIN f
Drop(f, k) == [x \in Dom(f) \ {k} |-> f[x]]
Put(f, k, v) == [x \in Dom(f) \cup {k} |-> IF x = k THEN v ELSE f[x]]
LinkType(t) == IF t = "pipe" THEN "Pipe" ELSE IF t \in {"hpump", "ppump"} THEN "Pump" ELSE "Valve"
NodeType(t) == IF t = "J" THEN "Junction" ELSE IF t = "T" THEN "Tank" ELSE "Reservoir"

\* ------------------------------------------------------------------ views (declarative)
NodeUsage(n) == {<<l, LinkType(links[l].type)>> : l \in {x \in Dom(links) : links[x].a = n \/ links[x].b = n}}
                \cup {<<s, "Source">> : s \in {x \in Dom(srcs) : srcs[x].node = n}}
PatUsage(p) == {<<n, NodeType(nodes[n].type)>> : n \in {x \in Dom(nodes) : p \in nodes[x].pats}}
               \cup {<<l, "Pump">> : l \in {x \in Dom(links) : links[x].pat = p}}
               \cup {<<s, "Source">> : s \in {x \in Dom(srcs) : srcs[x].pat = p}}
CurveUsage(c) == {<<n, "Tank">> : n \in {x \in Dom(nodes) : nodes[x].curve = c}}
                 \cup {<<l, "Pump">> : l \in {x \in Dom(links) : links[x].curve = c}}
RequiredBy(e) == {k \in Dom(ctls) : e \in ctls[k]}

OfNodeType(t) == {n \in Dom(nodes) : nodes[n].type = t}
OfLinkType(T) == {l \in Dom(links) : links[l].type \in T}
View == [nodes |-> Dom(nodes), junctions |-> OfNodeType("J"), tanks |-> OfNodeType("T"), reservoirs |-> OfNodeType("R"),
         links |-> Dom(links), pipes |-> OfLinkType({"pipe"}), pumps |-> OfLinkType({"hpump", "ppump"}),
         head_pumps |-> OfLinkType({"hpump"}), power_pumps |-> OfLinkType({"ppump"}),
         valves |-> OfLinkType({"PRV", "TCV"}), prvs |-> OfLinkType({"PRV"}), tcvs |-> OfLinkType({"TCV"}),
         patterns |-> pats, curves |-> Dom(curves), sources |-> Dom(srcs), controls |-> Dom(ctls),
         pump_curves |-> {c \in Dom(curves) : "HEAD" \in curves[c]}, volume_curves |-> {c \in Dom(curves) : "VOLUME" \in curves[c]},
         ends |-> [l \in Dom(links) |-> <<links[l].a, links[l].b>>],
         node_usage |-> [n \in Dom(nodes) |-> NodeUsage(n)],
         pat_usage |-> [p \in pats |-> PatUsage(p)],
         curve_usage |-> [c \in Dom(curves) |-> CurveUsage(c)]]

\* ------------------------------------------------------------------ operations
Log(op, args, o) ==
  /\ out' = o
  /\ hist' = IF Record THEN Append(hist, [op |-> op, args |-> args, out |-> o, view |-> View']) ELSE hist
Refuse(op, args) == UNCHANGED data /\ Log(op, args, "refused")
CanRecord == ~Record \/ Len(hist) < MaxLen

PatOpt == {""} \cup pats
CurveOpt(t) == {""} \cup {c \in Dom(curves) : t \in curves[c]}

\* a head pump names its curve: any name - one that exists is from then on also listed as a pump curve whatever it was
\* added as, one that does not exist (yet) is only recorded as used (names are bound late; GIS import adds pumps before
\* curves) and is listed once it exists under the type it is then added with
AsPumpCurve(c) == IF c \in Dom(curves) THEN [curves EXCEPT ![c] = @ \cup {"HEAD"}] ELSE curves
AddNode(n, t, p, c) ==
  /\ CanRecord /\ n \notin Dom(nodes)
  /\ (t = "T" => p = "") /\ (t # "T" => c = "")
  /\ nodes' = Put(nodes, n, [type |-> t, pats |-> IF p = "" THEN {} ELSE {p}, curve |-> c])
  /\ UNCHANGED <<links, pats, curves, srcs, ctls>> /\ Log("add_node", <<n, t, p, c>>, "ok")
AddLink(l, t, a, b, c) ==
  /\ CanRecord /\ l \notin Dom(links) /\ a \in Dom(nodes) /\ b \in Dom(nodes)      \* a = b (a loop) is accepted by the API
  /\ (t = "hpump" => c # "") /\ (t # "hpump" => c = "")
  /\ (t = "PRV" => nodes[a].type = "J" /\ nodes[b].type = "J")     \* add_valve refuses PRV/PSV/FCV next to a tank/reservoir
  /\ links' = Put(links, l, [type |-> t, a |-> a, b |-> b, pat |-> "", curve |-> c])
  /\ curves' = AsPumpCurve(c)
  /\ UNCHANGED <<nodes, pats, srcs, ctls>> /\ Log("add_link", <<l, t, a, b, c>>, "ok")
AddPattern(p) == /\ CanRecord /\ p \notin pats /\ pats' = pats \cup {p}
                 /\ UNCHANGED <<nodes, links, curves, srcs, ctls>> /\ Log("add_pattern", <<p>>, "ok")
AddCurve(c, t) == /\ CanRecord /\ c \notin Dom(curves) /\ curves' = Put(curves, c, {t})
                  /\ UNCHANGED <<nodes, links, pats, srcs, ctls>> /\ Log("add_curve", <<c, t>>, "ok")
AddSource(s, n, p) == /\ CanRecord /\ s \notin Dom(srcs) /\ n \in Dom(nodes)
                      /\ srcs' = Put(srcs, s, [node |-> n, pat |-> p])
                      /\ UNCHANGED <<nodes, links, pats, curves, ctls>> /\ Log("add_source", <<s, n, p>>, "ok")
AddControl(k, l, n) ==     \* control acting on link l, conditioned on node n ("" = a time control)
  /\ CanRecord /\ k \notin Dom(ctls) /\ l \in Dom(links) /\ (n = "" \/ n \in Dom(nodes))
  /\ ctls' = Put(ctls, k, {l} \cup (IF n = "" THEN {} ELSE {n}))
  /\ UNCHANGED <<nodes, links, pats, curves, srcs>> /\ Log("add_control", <<k, l, n>>, "ok")

\* (only in recorded histories: they leave the data unchanged, so the state-space configuration gains nothing from them)
\* invalid additions are refused and change nothing: a name that is already taken by a node / link (of any type), a link
\* whose end node does not exist
DupNode(n, t) == /\ Record /\ CanRecord /\ n \in Dom(nodes) /\ Refuse("add_node", <<n, t, "", "">>)
DupLink(l, t, a, b) == /\ Record /\ CanRecord /\ l \in Dom(links) /\ a \in Dom(nodes) /\ b \in Dom(nodes)
                       /\ Refuse("add_link", <<l, t, a, b, "">>)
DanglingLink(l, t, a, b) == /\ Record /\ CanRecord /\ l \notin Dom(links)
                            /\ (a \notin Dom(nodes) \/ b \notin Dom(nodes)) /\ (a \in Dom(nodes) \/ b \in Dom(nodes))
                            /\ Refuse("add_link", <<l, t, a, b, "">>)

\* a source name that is taken
DupSource(x, n) == /\ Record /\ CanRecord /\ x \in Dom(srcs) /\ n \in Dom(nodes) /\ Refuse("add_source", <<x, n, "">>)
\* a pattern / control name that is taken
DupPattern(p) == /\ Record /\ CanRecord /\ p \in pats /\ Refuse("add_pattern", <<p>>)
\* add_curve under a name that exists replaces the curve (the INP reader adds a curve once per tank / pump / valve that
\* shares it): its users keep the name, and the name is listed under every type it was ever added with ("you could end up
\* with a curve that is used for more than one type", set_curve_type)
ReAddCurve(c, t) == /\ CanRecord /\ c \in Dom(curves) /\ curves' = [curves EXCEPT ![c] = @ \cup {t}]
                    /\ UNCHANGED <<nodes, links, pats, srcs, ctls>> /\ Log("add_curve", <<c, t>>, "ok")
DupControl(k, l) == /\ Record /\ CanRecord /\ k \in Dom(ctls) /\ l \in Dom(links) /\ Refuse("add_control", <<k, l, "">>)
\* (a head pump may name a curve that is added later - GIS import does so -, therefore a missing curve is not a refusal)

\* removal is refused while the element is used or required by a control; a refusal changes nothing
RemoveNode(n) ==
  /\ CanRecord /\ n \in Dom(nodes)
  /\ IF NodeUsage(n) # {} \/ RequiredBy(n) # {} THEN Refuse("remove_node", <<n>>)
     ELSE nodes' = Drop(nodes, n) /\ UNCHANGED <<links, pats, curves, srcs, ctls>> /\ Log("remove_node", <<n>>, "ok")
\* remove_node(with_control=True): the controls that need the node go with it - unless the removal is refused (the node is
\* still used by a link or a source), in which case nothing changes
RemoveNodeWithControls(n) ==
  /\ CanRecord /\ n \in Dom(nodes)
  /\ IF NodeUsage(n) # {} THEN Refuse("remove_node_with_controls", <<n>>)
     ELSE /\ nodes' = Drop(nodes, n) /\ ctls' = [k \in Dom(ctls) \ RequiredBy(n) |-> ctls[k]]
          /\ UNCHANGED <<links, pats, curves, srcs>> /\ Log("remove_node_with_controls", <<n>>, "ok")
RemoveLink(l) ==
  /\ CanRecord /\ l \in Dom(links)
  /\ IF RequiredBy(l) # {} THEN Refuse("remove_link", <<l>>)
     ELSE links' = Drop(links, l) /\ UNCHANGED <<nodes, pats, curves, srcs, ctls>> /\ Log("remove_link", <<l>>, "ok")
RemovePattern(p) ==
  /\ CanRecord /\ p \in pats
  /\ IF PatUsage(p) # {} THEN Refuse("remove_pattern", <<p>>)
     ELSE pats' = pats \ {p} /\ UNCHANGED <<nodes, links, curves, srcs, ctls>> /\ Log("remove_pattern", <<p>>, "ok")
RemoveCurve(c) ==
  /\ CanRecord /\ c \in Dom(curves)
  /\ IF CurveUsage(c) # {} THEN Refuse("remove_curve", <<c>>)
     ELSE curves' = Drop(curves, c) /\ UNCHANGED <<nodes, links, pats, srcs, ctls>> /\ Log("remove_curve", <<c>>, "ok")
RemoveSource(s) == /\ CanRecord /\ s \in Dom(srcs) /\ srcs' = Drop(srcs, s)
                   /\ UNCHANGED <<nodes, links, pats, curves, ctls>> /\ Log("remove_source", <<s>>, "ok")
RemoveControl(k) == /\ CanRecord /\ k \in Dom(ctls) /\ ctls' = Drop(ctls, k)
                    /\ UNCHANGED <<nodes, links, pats, curves, srcs>> /\ Log("remove_control", <<k>>, "ok")

\* reassignments
SetEnd(l, which, n) ==
  /\ CanRecord /\ l \in Dom(links) /\ n \in Dom(nodes)
  /\ links' = [links EXCEPT ![l] = IF which = "start" THEN [@ EXCEPT !.a = n] ELSE [@ EXCEPT !.b = n]]
  /\ UNCHANGED <<nodes, pats, curves, srcs, ctls>> /\ Log("set_" \o which \o "_node", <<l, n>>, "ok")
SetSpeedPattern(l, p) ==
  /\ CanRecord /\ l \in Dom(links) /\ links[l].type \in {"hpump", "ppump"} /\ p \in pats
  /\ links' = [links EXCEPT ![l].pat = p]
  /\ UNCHANGED <<nodes, pats, curves, srcs, ctls>> /\ Log("set_speed_pattern", <<l, p>>, "ok")
SetPumpCurve(l, c) ==
  /\ CanRecord /\ l \in Dom(links) /\ links[l].type = "hpump" /\ c # ""
  /\ links' = [links EXCEPT ![l].curve = c]
  /\ curves' = AsPumpCurve(c)
  /\ UNCHANGED <<nodes, pats, srcs, ctls>> /\ Log("set_pump_curve", <<l, c>>, "ok")
SetVolCurve(n, c) ==
  /\ CanRecord /\ n \in Dom(nodes) /\ nodes[n].type = "T" /\ c \in CurveOpt("VOLUME") \ {""}
  /\ nodes' = [nodes EXCEPT ![n].curve = c]
  /\ UNCHANGED <<links, pats, curves, srcs, ctls>> /\ Log("set_vol_curve", <<n, c>>, "ok")
SetHeadPattern(n, p) ==
  /\ CanRecord /\ n \in Dom(nodes) /\ nodes[n].type = "R" /\ p \in pats
  /\ nodes' = [nodes EXCEPT ![n].pats = {p}]
  /\ UNCHANGED <<links, pats, curves, srcs, ctls>> /\ Log("set_head_pattern", <<n, p>>, "ok")
\* moving a source to another node moves its usage record
SetSourceNode(x, n) ==
  /\ CanRecord /\ x \in Dom(srcs) /\ n \in Dom(nodes)
  /\ srcs' = [srcs EXCEPT ![x].node = n]
  /\ UNCHANGED <<nodes, links, pats, curves, ctls>> /\ Log("set_source_node", <<x, n>>, "ok")
\* clearing a reference (assigning None) releases the usage record
ClearHeadPattern(n) ==
  /\ CanRecord /\ n \in Dom(nodes) /\ nodes[n].type = "R"
  /\ nodes' = [nodes EXCEPT ![n].pats = {}]
  /\ UNCHANGED <<links, pats, curves, srcs, ctls>> /\ Log("clear_head_pattern", <<n>>, "ok")
ClearSpeedPattern(l) ==
  /\ CanRecord /\ l \in Dom(links) /\ links[l].type \in {"hpump", "ppump"}
  /\ links' = [links EXCEPT ![l].pat = ""]
  /\ UNCHANGED <<nodes, pats, curves, srcs, ctls>> /\ Log("clear_speed_pattern", <<l>>, "ok")
ClearVolCurve(n) ==
  /\ CanRecord /\ n \in Dom(nodes) /\ nodes[n].type = "T"
  /\ nodes' = [nodes EXCEPT ![n].curve = ""]
  /\ UNCHANGED <<links, pats, curves, srcs, ctls>> /\ Log("clear_vol_curve", <<n>>, "ok")
AddDemand(n, p) ==
  /\ CanRecord /\ n \in Dom(nodes) /\ nodes[n].type = "J" /\ p \in pats
  /\ nodes' = [nodes EXCEPT ![n].pats = @ \cup {p}]
  /\ UNCHANGED <<links, pats, curves, srcs, ctls>> /\ Log("add_demand", <<n, p>>, "ok")

J0 == [type |-> "J", pats |-> {}, curve |-> ""]
Init == /\ IF Preload = 0
           THEN nodes = <<>> /\ links = <<>> /\ pats = {} /\ curves = <<>>
           ELSE /\ nodes = [n \in {"n1", "n2"} |-> J0]
                /\ links = [l \in {"l1"} |-> [type |-> "pipe", a |-> "n1", b |-> "n2", pat |-> "", curve |-> ""]]
                /\ pats = {"p1"} /\ curves = [c \in {"c1"} |-> {"HEAD"}]
        /\ srcs = <<>> /\ ctls = <<>>
        /\ out = "ok" /\ hist = <<>>
Next ==
  \/ \E n \in NodeNames, t \in {"J", "T", "R"}, p \in PatOpt, c \in CurveOpt("VOLUME") : AddNode(n, t, p, c)
  \/ \E l \in LinkNames, t \in {"pipe", "hpump", "ppump", "PRV", "TCV"}, a, b \in Dom(nodes), c \in {""} \cup CurveNames :
        AddLink(l, t, a, b, c)
  \/ \E n \in Dom(nodes), t \in {"J", "T"} : DupNode(n, t)
  \/ \E l \in Dom(links), t \in {"pipe", "ppump"}, a, b \in Dom(nodes) : DupLink(l, t, a, b)
  \/ \E t \in {"pipe", "TCV"} : \E l \in LinkNames, a, b \in NodeNames : DanglingLink(l, t, a, b)
  \/ \E p \in PatNames : AddPattern(p) \/ RemovePattern(p)
  \/ \E c \in CurveNames, t \in {"HEAD", "VOLUME"} : AddCurve(c, t)
  \/ \E c \in CurveNames : RemoveCurve(c)
  \/ \E s \in SrcNames, n \in Dom(nodes), p \in PatOpt : AddSource(s, n, p)
  \/ \E s \in SrcNames : RemoveSource(s)
  \/ \E k \in CtlNames, l \in Dom(links), n \in {""} \cup Dom(nodes) : AddControl(k, l, n)
  \/ \E k \in CtlNames : RemoveControl(k)
  \/ \E n \in NodeNames : RemoveNode(n) \/ RemoveNodeWithControls(n)
  \/ \E l \in LinkNames : RemoveLink(l)
  \/ \E l \in LinkNames, w \in {"start", "end"}, n \in Dom(nodes) : SetEnd(l, w, n)
  \/ \E l \in LinkNames, p \in pats : SetSpeedPattern(l, p)
  \/ \E l \in LinkNames, c \in CurveNames : SetPumpCurve(l, c)
  \/ \E n \in NodeNames, c \in Dom(curves) : SetVolCurve(n, c)
  \/ \E n \in NodeNames, p \in pats : SetHeadPattern(n, p) \/ AddDemand(n, p)
  \/ \E n \in NodeNames : ClearHeadPattern(n) \/ ClearVolCurve(n)
  \/ \E l \in LinkNames : ClearSpeedPattern(l)
  \/ \E x \in SrcNames, n \in Dom(nodes) : DupSource(x, n) \/ SetSourceNode(x, n)
  \/ \E q \in pats : DupPattern(q)
  \/ \E c \in Dom(curves), t \in {"HEAD", "VOLUME"} : ReAddCurve(c, t)
  \/ \E k \in Dom(ctls), l \in Dom(links) : DupControl(k, l)
Spec == Init /\ [][Next]_vars

\* ------------------------------------------------------------------ properties (C14) on the abstract model
EndNodesExist == \A l \in Dom(links) : links[l].a \in Dom(nodes) /\ links[l].b \in Dom(nodes)       \* C14.end_nodes_exist
RefsExist == /\ \A n \in Dom(nodes) : nodes[n].pats \subseteq pats /\ (nodes[n].curve = "" \/ nodes[n].curve \in Dom(curves))
             /\ \A l \in Dom(links) : (links[l].pat = "" \/ links[l].pat \in pats) /\ (links[l].curve # "" => links[l].type = "hpump")
             /\ \A s \in Dom(srcs) : srcs[s].node \in Dom(nodes) /\ (srcs[s].pat = "" \/ srcs[s].pat \in pats)
             /\ \A k \in Dom(ctls) : ctls[k] \subseteq Dom(nodes) \cup Dom(links)
TypedPartition == /\ OfNodeType("J") \cup OfNodeType("T") \cup OfNodeType("R") = Dom(nodes)
                  /\ View.pipes \cup View.pumps \cup View.valves = Dom(links)
                  /\ View.head_pumps \cup View.power_pumps = View.pumps /\ View.prvs \cup View.tcvs = View.valves
RefusalUnchanged == [][out' = "refused" => UNCHANGED data]_vars                                     \* C14.refusal_unchanged
Bound == TLCGet("level") <= MaxLen + 1      \* depth bound for the model-checking configuration
\* emission for the replay harness: complete histories, each entry with the view expected after the operation
Emit == Record /\ Len(hist) = MaxLen => PrintT(<<"HIST", ToJson(hist)>>)
=============================================================================

------------------------------- MODULE AmlReg -------------------------------
(***************************************************************************)
(* C15 - reference counting of leaves (vars, params, floats) across any    *)
(* history of registering and removing constraints (aml.Model:             *)
(* _increment_* / _decrement_*, one map per leaf kind).  A leaf is live in *)
(* the compiled evaluator iff some registered constraint references it.    *)
(* Shared sub-expressions make two constraints reference the SAME float.   *)
(***************************************************************************)
EXTENDS Integers, FiniteSets, TLC
CONSTANT MaxCons
Leaves == {"x", "y", "p", "f1", "f2"}          \* two vars, a param, two float constants
Kind(l) == IF l \in {"x", "y"} THEN "var" ELSE IF l = "p" THEN "param" ELSE "float"
ConNames == 1..MaxCons
VARIABLES reg,      \* registered constraints: name -> set of leaves it references
          refc,     \* leaf -> reference count (absent when not live)
          cmap      \* kind -> set of leaves that have a compiled counterpart (_var_cvar_map, _param_cparam_map, _float_cfloat_map)
vars == <<reg, refc, cmap>>
Init == reg = <<>> /\ refc = <<>> /\ cmap = [k \in {"var", "param", "float"} |-> {}]

RECURSIVE Incr(_, _, _)
Incr(rc, cm, S) ==
  IF S = {} THEN <<rc, cm>>
  ELSE LET l == CHOOSE x \in S : TRUE IN
       IF l \notin cm[Kind(l)]
       THEN Incr([x \in DOMAIN rc \cup {l} |-> IF x = l THEN 1 ELSE rc[x]], [cm EXCEPT ![Kind(l)] = @ \cup {l}], S \ {l})
       ELSE Incr([rc EXCEPT ![l] = @ + 1], cm, S \ {l})
RECURSIVE Decr(_, _, _)
Decr(rc, cm, S) ==
  IF S = {} THEN <<rc, cm>>
  ELSE LET l == CHOOSE x \in S : TRUE IN
       IF rc[l] = 1
       THEN Decr([x \in DOMAIN rc \ {l} |-> rc[x]], [cm EXCEPT ![Kind(l)] = @ \ {l}], S \ {l})
       ELSE Decr([rc EXCEPT ![l] = @ - 1], cm, S \ {l})
Register(c, S) == /\ c \notin DOMAIN reg /\ S # {}
                  /\ reg' = [x \in DOMAIN reg \cup {c} |-> IF x = c THEN S ELSE reg[x]]
                  /\ LET r == Incr(refc, cmap, S) IN refc' = r[1] /\ cmap' = r[2]
Remove(c) == /\ c \in DOMAIN reg
             /\ reg' = [x \in DOMAIN reg \ {c} |-> reg[x]]
             /\ LET r == Decr(refc, cmap, reg[c]) IN refc' = r[1] /\ cmap' = r[2]
Next == (\E c \in ConNames, S \in SUBSET Leaves : Register(c, S)) \/ (\E c \in ConNames : Remove(c))
Spec == Init /\ [][Next]_vars

Uses(l) == Cardinality({c \in DOMAIN reg : l \in reg[c]})
RefcountIsUse == \A l \in Leaves : IF Uses(l) = 0 THEN l \notin DOMAIN refc ELSE l \in DOMAIN refc /\ refc[l] = Uses(l)   \* C15.refcount
LiveIffReferenced == \A l \in Leaves : (l \in cmap[Kind(l)]) <=> Uses(l) > 0                                            \* C15.live_iff_referenced
=============================================================================

-------------------------------- MODULE Same --------------------------------
(***************************************************************************)
(* Structural equality of two recorded values (canonicalised dictionary    *)
(* representations of a model, floats rendered as strings so that the      *)
(* comparison is exact).  Used for C11 (simulating never alters the        *)
(* definition) and C13 (dict / JSON round trip).  A case is                *)
(* [clause, x, y]; values are JSON trees.                                  *)
(***************************************************************************)
EXTENDS Sequences, TLC, Json, IOUtils, Integers
VARIABLES i, viol
Cases == JsonDeserialize(IOEnv.CASES)
Init == i = 0 /\ viol = {}
Next == i < Len(Cases) /\ i' = i + 1
        /\ viol' = (IF Cases[i + 1].x = Cases[i + 1].y THEN {} ELSE {Cases[i + 1].clause})
Spec == Init /\ [][Next]_<<i, viol>>
Report == viol # {} => PrintT(<<"VIOL", i, viol>>)
Done == TLCGet("stats").diameter - 1 = Len(Cases)
=============================================================================

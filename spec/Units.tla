------------------------------- MODULE Units -------------------------------
(***************************************************************************)
(* C17 - EPANET unit conversions.  Normative table of conversion factors   *)
(* (to_si multiplies by Factor, from_si divides), written from the         *)
(* physical definitions named in the property and the EPANET manual.       *)
(* A factor is [r |-> rational, sq |-> BOOLEAN]; when sq the rational is   *)
(* the SQUARE of the factor (emitter coefficients involve sqrt(psi/m)).    *)
(***************************************************************************)
EXTENDS Dec, FiniteSets, TLC

FlowUnitsAll == {"CFS", "GPM", "MGD", "IMGD", "AFD", "LPS", "LPM", "MLD", "CMH", "CMD", "SI"}
Traditional  == {"CFS", "GPM", "MGD", "IMGD", "AFD"}        \* US customary, exactly these
Metric       == {"LPS", "LPM", "MLD", "CMH", "CMD"}
MassAll      == {"mg", "ug", "g", "kg"}
HydAll  == {"Elevation", "Demand", "HydraulicHead", "Pressure", "Length", "PipeDiameter", "Flow",
            "Velocity", "HeadLoss", "Power", "Volume", "EmitterCoeff", "RoughnessCoeff",
            "TankDiameter", "Energy"}
QualAll == {"Quality", "LinkQuality", "ReactionRate", "Concentration", "BulkReactionCoeff",
            "WallReactionCoeff", "SourceMassInject", "WaterAge"}
Orders == {0, 1, 2}

Family(fu) == IF fu \in Traditional THEN "US" ELSE IF fu \in Metric THEN "metric" ELSE "SI"

\* ---- physical constants (exact decimals)
Q(i, e) == RDec(Sci(i, e))
One     == RInt(1)
Ft      == Q(3048, -4)                  \* 1 ft = 0.3048 m
Inch    == Q(254, -4)                   \* 1 in = 0.0254 m
Ft2     == RMul(Ft, Ft)
Ft3     == RMul(Ft2, Ft)                \* 0.028316846592 m3
Gal     == RDec(Add(Sci(3785411, -9), Sci(784, -12)))  \* 1 US gal = 3.785411784e-3 m3
ImpGal  == Q(454609, -8)                \* 1 Imp gal = 4.54609e-3 m3
AcreFt  == RMul(RInt(43560), Ft3)       \* 1 acre-ft = 43560 ft3
PsiM    == RDiv(Ft, Q(4333, -4))        \* 1 psi = 0.3048/0.4333 m of water
Hp      == RDec(Add(Sci(745699, -3), Sci(872, -6)))    \* 1 hp = 745.699872 W
Sec(n)  == RInt(n)
Per(r, n) == RDiv(r, RInt(n))

FlowFactor(fu) ==
  CASE fu = "CFS"  -> Ft3
    [] fu = "GPM"  -> Per(Gal, 60)
    [] fu = "MGD"  -> Per(RMul(RInt(1000000), Gal), 86400)
    [] fu = "IMGD" -> Per(RMul(RInt(1000000), ImpGal), 86400)
    [] fu = "AFD"  -> Per(AcreFt, 86400)
    [] fu = "LPS"  -> Q(1, -3)
    [] fu = "LPM"  -> Per(Q(1, -3), 60)
    [] fu = "MLD"  -> Per(RInt(1000), 86400)
    [] fu = "CMH"  -> Per(One, 3600)
    [] fu = "CMD"  -> Per(One, 86400)
    [] fu = "SI"   -> One

MassFactor(mu) == CASE mu = "mg" -> Q(1, -6) [] mu = "ug" -> Q(1, -9) [] mu = "g" -> Q(1, -3) [] mu = "kg" -> One

Plain(r) == [r |-> r, sq |-> FALSE]
ByFamily(fu, us, met, si) == LET f == Family(fu) IN IF f = "US" THEN us ELSE IF f = "metric" THEN met ELSE si

HydFactor(fu, p, dw) ==
  CASE p \in {"Demand", "Flow"} -> Plain(FlowFactor(fu))
    [] p = "EmitterCoeff" ->     \* flow / sqrt(psi)  ->  flow / sqrt(m):  factor^2 = flow^2 / (m per psi)
         IF Family(fu) = "US" THEN [r |-> RDiv(RMul(FlowFactor(fu), FlowFactor(fu)), PsiM), sq |-> TRUE]
         ELSE Plain(FlowFactor(fu))
    [] p = "PipeDiameter"   -> Plain(ByFamily(fu, Inch, Q(1, -3), One))
    [] p = "RoughnessCoeff" -> IF dw THEN Plain(ByFamily(fu, RMul(Q(1, -3), Ft), Q(1, -3), One)) ELSE Plain(One)
    [] p \in {"TankDiameter", "Elevation", "HydraulicHead", "Length", "Velocity"} -> Plain(ByFamily(fu, Ft, One, One))
    [] p = "HeadLoss" -> Plain(Q(1, -3))
    [] p = "Energy"   -> Plain(RInt(3600000))
    [] p = "Power"    -> Plain(ByFamily(fu, Hp, RInt(1000), One))
    [] p = "Pressure" -> Plain(ByFamily(fu, PsiM, One, One))
    [] p = "Volume"   -> Plain(ByFamily(fu, Ft3, One, One))

QualFactor(fu, p, mu, order) ==
  CASE p \in {"Concentration", "Quality", "LinkQuality"} -> Plain(RDiv(MassFactor(mu), Q(1, -3)))
    [] p = "ReactionRate"      -> Plain(Per(RDiv(MassFactor(mu), Q(1, -3)), 86400))
    [] p = "SourceMassInject"  -> Plain(Per(MassFactor(mu), 60))
    [] p = "BulkReactionCoeff" -> Plain(IF order = 1 THEN Per(One, 86400) ELSE One)
    [] p = "WallReactionCoeff" ->
         Plain(IF order = 0 THEN ByFamily(fu, Per(RMul(MassFactor(mu), Ft2), 86400), Per(MassFactor(mu), 86400), Per(MassFactor(mu), 86400))
               ELSE IF order = 1 THEN ByFamily(fu, Per(Ft, 86400), Per(One, 86400), Per(One, 86400))
               ELSE One)
    [] p = "WaterAge" -> Plain(RInt(3600))

Factor(c) == IF c.kind = "hyd" THEN HydFactor(c.fu, c.param, c.dw) ELSE QualFactor(c.fu, c.param, c.mass, c.order)

\* the complete finite table
Rows == [kind : {"hyd"}, fu : FlowUnitsAll, param : HydAll, dw : BOOLEAN, mass : {"mg"}, order : {0}]
        \cup [kind : {"qual"}, fu : FlowUnitsAll, param : QualAll, dw : {FALSE}, mass : MassAll, order : Orders]

\* published precision of the constants WNTR documents (CFS 0.0283168466, acre-ft 1233.48184): 1e-8;
\* the wall-reaction area constant is documented with 5 digits (0.092903 ft2->m2): 1e-6
RTol(c) == IF c.kind = "qual" /\ c.param = "WallReactionCoeff" /\ c.order = 0 /\ Family(c.fu) = "US"
           THEN Sci(1, -6) ELSE Sci(1, -8)

\* ---- design-level lemmas checked by TLC on the table itself (config MC_Units)
PositiveFactors == \A c \in Rows : LET f == Factor(c) IN Sgn(f.r[1]) = 1 /\ Sgn(f.r[2]) = 1
FamilyPartition == /\ Traditional \cap Metric = {} /\ Traditional \cup Metric \cup {"SI"} = FlowUnitsAll
                   /\ Traditional = {"CFS", "GPM", "MGD", "IMGD", "AFD"}
InverseLemma == \A c \in Rows : LET f == Factor(c).r  x == Q(12345, -2)
                              IN RCmp(RDiv(RMul(x, f), f), x) = 0
SIIdentity == \A c \in Rows : c.fu = "SI" /\ c.kind = "hyd" /\ c.param \notin {"HeadLoss", "Energy"}
                              => RCmp(Factor(c).r, One) = 0
USvsMetric == \A p \in {"Elevation", "Length", "Pressure", "Volume", "Power", "PipeDiameter"} :
                \A a \in Traditional, b \in Metric :
                  RCmp(HydFactor(a, p, FALSE).r, HydFactor(b, p, FALSE).r) # 0
Lemmas == PositiveFactors /\ FamilyPartition /\ InverseLemma /\ SIIdentity /\ USvsMetric
=============================================================================

------------------------------ MODULE FailStop ------------------------------
(***************************************************************************)
(* C16 - runs terminate with well-formed results and never hide a failed   *)
(* step.  A case records one run_sim call in which the environment made    *)
(* the k-th nonlinear solve fail (k = 0: no failure), together with the    *)
(* clean run of the same model:                                            *)
(*   clean, faulty : sequences of rows [t, vals (sequence of numbers)]     *)
(*   tfail         : simulation time of the failed solve (-1 if none)      *)
(*   conv_err      : the convergence_error argument                        *)
(*   out           : [returned, raised, err, warned, finite, cols_ok,      *)
(*                    same_index, timed_out]                               *)
(*   Rep           : report step (0 = 'ALL'); H hydraulic step             *)
(* The intended behaviour is the one of WntrSim.tla extended with the      *)
(* environment action SolveFails: the loop stops at the failed solve,      *)
(* nothing is reported for it, and what was reported before is untouched.  *)
(***************************************************************************)
EXTENDS Dec, Sequences, FiniteSets, TLC, Json, IOUtils
VARIABLES i, viol
Cases == JsonDeserialize(IOEnv.CASES)
RowEq(x, y) == x.t = y.t /\ Len(x.vals) = Len(y.vals)
               /\ \A k \in DOMAIN x.vals : Close(Num(x.vals[k]), Num(y.vals[k]), Sci(1, -5), Sci(1, -5))     \* two clean runs of one model differ by up to ~1e-7 (iteration order; solver tolerance 1e-6)
Clauses(c) ==
  LET f == c.faulty  o == c.out  bad(n, ok) == IF ok THEN {} ELSE {n}
      failed == c.tfail >= 0
      Prefix == SelectSeq(c.clean, LAMBDA r : ~failed \/ r.t < c.tfail) IN
  bad("C16.terminates", ~o.timed_out)
  \cup (IF o.timed_out THEN {} ELSE
        \* signalling: RuntimeError iff a failure with convergence_error; otherwise results + error_code + warning
        bad("C16.fail_signalled",
            IF failed /\ c.conv_err THEN o.raised /\ ~o.returned
            ELSE IF failed THEN o.returned /\ ~o.raised /\ o.err /\ o.warned
            ELSE o.returned /\ ~o.raised /\ ~o.err)
        \cup (IF ~o.returned THEN {} ELSE
              bad("C16.index_increasing", \A k \in DOMAIN f : k = 1 \/ f[k].t > f[k - 1].t)
              \cup bad("C16.on_report_grid", c.Rep = 0 \/ \A k \in DOMAIN f : f[k].t % c.Rep = 0)
              \cup bad("C16.columns", o.cols_ok /\ o.same_index)
              \cup bad("C16.finite", o.finite)
              \* fail-stop: nothing at or after the failed solve, everything before it unchanged
              \* a run that reports no failure covers the whole duration (its last row lies within one hydraulic / report step of it)
              \cup bad("C16.complete", failed \/ (Len(f) > 0 /\ f[Len(f)].t + (IF c.Rep > c.H THEN c.Rep ELSE c.H) > c.Dur))
              \cup bad("C16.fail_stop", ~failed \/ \A k \in DOMAIN f : f[k].t < c.tfail)
              \cup bad("C16.prefix_equal", Len(f) = Len(Prefix) /\ \A k \in DOMAIN f : RowEq(f[k], Prefix[k]))))
Init == i = 0 /\ viol = {}
Next == i < Len(Cases) /\ i' = i + 1 /\ viol' = Clauses(Cases[i + 1])
Spec == Init /\ [][Next]_<<i, viol>>
Report == viol # {} => PrintT(<<"VIOL", i, viol>>)
Done == TLCGet("stats").diameter - 1 = Len(Cases)
=============================================================================

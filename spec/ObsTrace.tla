------------------------------ MODULE ObsTrace ------------------------------
(***************************************************************************)
(* Trace validation of recorded WNTRSimulator runs against Hydraulics.tla. *)
(* A batch (IOEnv.CASES) is a sequence of traces [scn, rows]; the spec     *)
(* walks trace after trace, row after row (one state per row), and         *)
(* computes in every state the set of violated clauses: state clauses on   *)
(* the row, step clauses on the pair (previous row, row).  Next is total,  *)
(* verdicts are printed by the always-true invariant Report, and the       *)
(* postcondition Done checks that every row of every trace was consumed.   *)
(* scn.props selects which properties' clauses are evaluated.              *)
(***************************************************************************)
EXTENDS Hydraulics, Sequences, Json, IOUtils

VARIABLES k, l, viol, acc
vars == <<k, l, viol, acc>>
\* acc: per tank, the largest |net inflow| reported so far in the current trace (an overshoot of a level
\* limit persists after the tank has been shut in, so the bound refers to the flow that produced it)
Cases == JsonDeserialize(IOEnv.CASES)
Scn(i) == Cases[i].scn
Row(i, j) == Cases[i].rows[j]
NRows(i) == Len(Cases[i].rows)

Want(s, p) == \E i \in DOMAIN s.props : s.props[i] = p
Bad(c, ok) == IF ok THEN {} ELSE {c}

NodeClauses(s, r, nd, reach, isFirst) ==
  LET n == nd.name
      NBad(c, ok) == IF ok THEN {} ELSE {c \o "@" \o n} IN
  CASE nd.type = "J" ->
        IF n \notin reach
        THEN (IF Want(s, "C09") THEN NBad("C09.isolated_zero", IsZero(N(r.dem[n])) /\ IsZero(N(r.press[n])) /\ IsZero(N(r.leak[n]))) ELSE {})
             \* a junction that is cut off has no pressure: its leak discharges nothing
             \cup (IF Want(s, "C08") THEN NBad("C08.leak_isolated_zero", IsZero(N(r.leak[n]))) ELSE {})
        ELSE (IF Want(s, "C01") THEN NBad("C01.junction_balance", JunctionBalance(s, r, n)) ELSE {})
             \cup (IF s.mode = "DD"
                   THEN (IF Want(s, "C01") THEN NBad("C01.dd_demand", DDDemand(s, r, nd)) ELSE {})
                        \cup (IF Want(s, "C09") THEN NBad("C09.connected_not_zeroed",
                                   IsZero(Requested(s, nd, r.t)) \/ ~IsZero(N(r.dem[n]))) ELSE {})
                   ELSE IF Want(s, "C07") THEN
                          (IF nd.dem = <<>> THEN {} ELSE
                           LET pp == PddParamsAt(s, nd, r.t)  p == N(r.press[n]) IN
                           IF Gt(p, Add(pp.pmin, Delta)) /\ Lt(p, Sub(pp.preq, Delta))
                              /\ ~PowCert(N(r.cert[n].x), pp.pexp[1], pp.pexp[2], N(r.cert[n].xpow), PK)
                           THEN {"CERT.bad"} ELSE PDDClauses(s, r, nd))
                        ELSE {})
             \cup (IF Want(s, "C08") THEN LeakClauses(s, r, nd) ELSE {})
             \* C08: the leak flow is part of the node's mass balance (in every demand model)
             \cup (IF Want(s, "C08") /\ ~IsZero(N(r.leak[n])) THEN NBad("C08.leak_in_balance", JunctionBalance(s, r, n)) ELSE {})
    [] nd.type = "T" ->
        (IF Want(s, "C01") THEN NBad("C01.tank_demand", SourceDemand(s, r, n)) ELSE {})
        \cup (IF Want(s, "C08") THEN LeakClauses(s, r, nd) ELSE {})
        \cup (IF Want(s, "C08") /\ ~IsZero(N(r.leak[n])) THEN NBad("C08.leak_in_balance", SourceDemand(s, r, n)) ELSE {})
        \cup (IF Want(s, "C06") THEN
                (IF isFirst THEN NBad("C06.tank_limits", TankLimits(Zero, r, nd)) ELSE {})
                \cup NBad("C06.no_drain_at_min", NoDrainAtMin(r, nd))
                \cup NBad("C06.no_fill_at_max", NoFillAtMax(r, nd))
                \cup (IF isFirst /\ r.t = 0 THEN NBad("C06.tank_init", TankInit(r, nd)) ELSE {})
              ELSE {})
    [] nd.type = "R" ->
        IF Want(s, "C01") THEN NBad("C01.reservoir_demand", SourceDemand(s, r, n)) ELSE {}

LinkCerts(s, r, l0, reach) ==      \* per-row witnesses must be genuine before a law is judged with them
  LET st == r.status[l0.name]  q == N(r.flow[l0.name]) IN
  IF IsolatedLink(s, reach, l0) \/ st = Closed THEN TRUE
  ELSE CASE l0.type = "pipe" -> Lt(Abs(q), Q2) \/ PowCert(Abs(q), 463, 250, N(r.cert[l0.name].qpow), PK)
         [] l0.type = "headpump" -> Lt(q, Sci(1, -6)) \/ PowCert(q, l0.cp, l0.cq, N(r.cert[l0.name].qpow), PK)
         [] OTHER -> TRUE

StateClauses(s, r, isFirst) ==
  LET reach == Reach(s, r) IN
  UNION {NodeClauses(s, r, s.nodes[i], reach, isFirst) : i \in DOMAIN s.nodes}
  \cup (IF Want(s, "C05") THEN {"C05.ctl_consistent@" \o s.cctl[i].link : i \in CtlConsistent(s, r, reach)} ELSE {})
  \cup (IF Want(s, "C02") \/ Want(s, "C09")
        THEN UNION {IF ~LinkCerts(s, r, s.links[i], reach) THEN {"CERT.bad"}
                    ELSE {c \in LinkClauses(s, r, s.links[i], reach) :
                            \/ Want(s, "C02") /\ c # "C09.isolated_zero@" \o s.links[i].name
                            \/ Want(s, "C09") /\ c = "C09.isolated_zero@" \o s.links[i].name} : i \in DOMAIN s.links}
        ELSE {})

\* scenario-level certificates (pipe resistances, pump curve families) are verified on the first row
PumpFamilyOK(l0) ==
  /\ \A i \in DOMAIN l0.curve :
        LET Qi == N(l0.curve[i][1])  Hi == N(l0.curve[i][2])  w == N(l0.cert.qpows[i]) IN
        /\ PowCert(Qi, l0.cp, l0.cq, w, PK)
        /\ Close(Sub(N(l0.A), Mul(N(l0.B), w)), Hi, Sci(1, -9), Sci(1, -6))
  /\ (Len(l0.curve) = 1 => Close(Mul(FromInt(3), N(l0.A)), Mul(FromInt(4), N(l0.curve[1][2])), Zero, Sci(1, -12)) /\ l0.cp = 2 /\ l0.cq = 1)
  /\ (Len(l0.curve) = 2 => l0.cp = l0.cq)
ScenarioCerts(s) ==
  IF \A i \in DOMAIN s.links :
        LET l0 == s.links[i] IN
        CASE l0.type = "pipe" -> ~Want(s, "C02") \/ PipeCertOK(l0)
          [] l0.type = "headpump" -> ~Want(s, "C02") \/ PumpFamilyOK(l0)
          [] OTHER -> TRUE
  THEN {} ELSE {"CERT.bad"}

TankNames(s) == {s.nodes[i].name : i \in {j \in DOMAIN s.nodes : s.nodes[j].type = "T"}}
\* acc[n] = [q: largest |net inflow| so far, off: the level has left the domain of the volume curve at some row
\* (np.interp clamps there and the stored volume is lost: limits are not asserted afterwards)]
Acc0(s, r) == [n \in TankNames(s) |-> [q |-> Abs(N(r.dem[n])), off |-> ~OnCurve(NodeRec(s, n), Level(r, NodeRec(s, n)))]]
AccNext(s, a, r) == [n \in TankNames(s) |-> [q |-> MaxD(a[n].q, Abs(N(r.dem[n]))),
                                              off |-> a[n].off \/ ~OnCurve(NodeRec(s, n), Level(r, NodeRec(s, n)))]]
StepClauses(s, p, r, a) ==
  (IF Want(s, "C05") /\ s.all THEN {"C05.no_overshoot@" \o s.cctl[i].node : i \in NoOvershoot(s, p, r)} ELSE {}) \cup
  IF Want(s, "C06") /\ s.all
  THEN UNION {IF s.nodes[i].type = "T"
              THEN Bad("C06.tank_step@" \o s.nodes[i].name, TankStep(p, r, s.nodes[i]))
                   \cup Bad("C06.tank_limits@" \o s.nodes[i].name, a[s.nodes[i].name].off \/ TankLimits(a[s.nodes[i].name].q, r, s.nodes[i]))
              ELSE {} : i \in DOMAIN s.nodes}
       \cup Bad("C16.index_increasing", r.t > p.t)
  ELSE {}

\* sweep clauses (C07): over all ordered pairs of rows of a sweep trace, for the swept junction
SweepClauses(s, rows) ==
  IF ~(Want(s, "C07") /\ s.sweep # "") THEN {}
  ELSE LET nd == NodeRec(s, s.sweep)
           pp == PddParams(s, nd)
           Dq == Abs(Requested(s, nd, 0))
           tolD == Add(Mul(FromInt(2), Tol), Mul(Sci(2, -6), Dq))
           lo == Add(pp.pmin, Sci(25, -3))
       IN  UNION {UNION {
             LET pi == N(rows[i].press[nd.name])  pj == N(rows[j].press[nd.name])
                 di == Mul(N(rows[i].dem[nd.name]), FromInt(Sgn(Requested(s, nd, 0))))
                 dj == Mul(N(rows[j].dem[nd.name]), FromInt(Sgn(Requested(s, nd, 0)))) IN
             IF Gt(pi, pj) THEN {}
             ELSE Bad("C07.pdd_monotone", Leq(di, Add(dj, tolD)))
                  \cup (IF Geq(pi, lo) THEN
                          Bad("C07.pdd_continuous", Leq(Sub(dj, di), Add(tolD, Mul(Mul(FromInt(60), Dq), Sub(pj, pi)))))
                        ELSE {})
             : j \in DOMAIN rows} : i \in DOMAIN rows}

Init == /\ k = 1 /\ l = 1 /\ acc = Acc0(Scn(1), Row(1, 1))
        /\ viol = StateClauses(Scn(1), Row(1, 1), TRUE) \cup ScenarioCerts(Scn(1))
                  \cup (IF NRows(1) = 1 THEN SweepClauses(Scn(1), Cases[1].rows) ELSE {})
Next == \/ /\ l < NRows(k)
           /\ l' = l + 1 /\ k' = k /\ acc' = AccNext(Scn(k), acc, Row(k, l + 1))
           /\ viol' = StateClauses(Scn(k), Row(k, l + 1), FALSE) \cup StepClauses(Scn(k), Row(k, l), Row(k, l + 1), acc)
                      \cup (IF l + 1 = NRows(k) THEN SweepClauses(Scn(k), Cases[k].rows) ELSE {})
        \/ /\ l = NRows(k) /\ k < Len(Cases)
           /\ k' = k + 1 /\ l' = 1 /\ acc' = Acc0(Scn(k + 1), Row(k + 1, 1))
           /\ viol' = StateClauses(Scn(k + 1), Row(k + 1, 1), TRUE) \cup ScenarioCerts(Scn(k + 1))
                      \cup (IF NRows(k + 1) = 1 THEN SweepClauses(Scn(k + 1), Cases[k + 1].rows) ELSE {})
Spec == Init /\ [][Next]_vars
Report == viol # {} => PrintT(<<"VIOL", k, l, viol>>)
RECURSIVE Total(_)
Total(i) == IF i = 0 THEN 0 ELSE NRows(i) + Total(i - 1)
Done == TLCGet("stats").diameter = Total(Len(Cases))
=============================================================================

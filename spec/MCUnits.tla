------------------------------ MODULE MCUnits ------------------------------
(* TLC entry point for the design-level lemmas of Units.tla (no behaviour: the table is static). *)
EXTENDS Units
VARIABLE u
MCInit == u = 0
MCNext == UNCHANGED u
MCSpec == MCInit /\ [][MCNext]_u
=============================================================================

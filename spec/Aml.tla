--------------------------------- MODULE Aml ---------------------------------
(***************************************************************************)
(* C15 - the algebraic modelling layer (wntr.sim.aml): what the compiled   *)
(* evaluator must return.  Expressions are trees over                      *)
(*   var, param, const, add, sub, mul, div, neg, abs, sign, pow, fn,       *)
(*   ifelse / ineq, and conditional constraints (cond).                    *)
(* Eval and the partial derivative D are defined recursively in exact      *)
(* rational arithmetic (Dec.tla).  Integer powers are evaluated exactly;   *)
(* transcendental functions (exp log sin cos tan asin acos atan) and       *)
(* non-integer powers are UNINTERPRETED: the spec fixes where they are     *)
(* applied and how derivatives compose (chain rule), and takes the value   *)
(* and the local partials of the function at its argument from a table     *)
(* (tab, keyed by the node id) after checking that the table was computed  *)
(* at the argument the spec itself evaluates (trusted base: libm).         *)
(*                                                                         *)
(* A trace is a history of model operations; AmlTrace checks after every   *)
(* "evaluate" event that residuals, Jacobian entries, indices and the set  *)
(* of live variables are the ones this module defines.                     *)
(***************************************************************************)
EXTENDS Dec, FiniteSets, TLC, Json, IOUtils

\* ------------------------------------------------------------------ rationals
R0 == RInt(0)
R1 == RInt(1)
RNeg(r) == <<Neg(r[1]), r[2]>>
RSgn(r) == Sgn(r[1])
RIsZero(r) == IsZero(r[1])
RAbs(r) == <<Abs(r[1]), r[2]>>
RECURSIVE RPowI(_, _)
RPowI(r, n) == IF n = 0 THEN R1 ELSE IF n > 0 THEN RMul(r, RPowI(r, n - 1)) ELSE RDiv(R1, RPowI(r, -n))
Sgn1(r) == IF RSgn(r) >= 0 THEN R1 ELSE RNeg(R1)          \* sign(0) = +1 in the evaluator

\* env = [var: record name -> number, par: record name -> number, tab: record id -> [arg, argb, v, da, db]]
IsIntConst(e) == e.op = "const" /\ e.isint /\ e.i >= -3 /\ e.i <= 4
ArgTol == Sci(1, -9)

RECURSIVE Eval(_, _), Holds(_, _)
Holds(c, env) ==        \* inequality(body, lb, ub): lb <= body <= ub (both inclusive)
  LET b == Eval(c.a, env) IN
  /\ (c.haslb => RCmp(RDec(Num(c.lb)), b) <= 0)
  /\ (c.hasub => RCmp(b, RDec(Num(c.ub))) <= 0)
Eval(e, env) ==
  CASE e.op = "var"   -> RDec(Num(env.var[e.name]))
    [] e.op = "param" -> RDec(Num(env.par[e.name]))
    [] e.op = "const" -> RDec(Num(e.v))
    [] e.op = "add"   -> RAdd(Eval(e.a, env), Eval(e.b, env))
    [] e.op = "sub"   -> RSub(Eval(e.a, env), Eval(e.b, env))
    [] e.op = "mul"   -> RMul(Eval(e.a, env), Eval(e.b, env))
    [] e.op = "div"   -> RDiv(Eval(e.a, env), Eval(e.b, env))
    [] e.op = "neg"   -> RNeg(Eval(e.a, env))
    [] e.op = "abs"   -> RAbs(Eval(e.a, env))
    [] e.op = "sign"  -> Sgn1(Eval(e.a, env))
    [] e.op = "pow"   -> IF IsIntConst(e.b) THEN RPowI(Eval(e.a, env), e.b.i) ELSE RDec(Num(env.tab[e.id].v))
    [] e.op = "fn"    -> RDec(Num(env.tab[e.id].v))
    [] e.op = "ifelse" -> IF Holds(e.c, env) THEN Eval(e.a, env) ELSE Eval(e.b, env)
    [] e.op = "cond"  -> LET first == {i \in DOMAIN e.cases : Holds(e.cases[i].c, env) /\ \A j \in 1..(i - 1) : ~Holds(e.cases[j].c, env)}
                         IN  IF first = {} THEN Eval(e.final, env) ELSE Eval(e.cases[CHOOSE i \in first : TRUE].e, env)

\* partial derivative with respect to variable v
RECURSIVE Dv(_, _, _)
Dv(e, v, env) ==
  CASE e.op = "var"   -> IF e.name = v THEN R1 ELSE R0
    [] e.op \in {"param", "const", "sign"} -> R0
    [] e.op = "add"   -> RAdd(Dv(e.a, v, env), Dv(e.b, v, env))
    [] e.op = "sub"   -> RSub(Dv(e.a, v, env), Dv(e.b, v, env))
    [] e.op = "mul"   -> RAdd(RMul(Dv(e.a, v, env), Eval(e.b, env)), RMul(Eval(e.a, env), Dv(e.b, v, env)))
    [] e.op = "div"   -> LET a == Eval(e.a, env)  b == Eval(e.b, env) IN
                         RDiv(RSub(RMul(Dv(e.a, v, env), b), RMul(a, Dv(e.b, v, env))), RMul(b, b))
    [] e.op = "neg"   -> RNeg(Dv(e.a, v, env))
    [] e.op = "abs"   -> RMul(Sgn1(Eval(e.a, env)), Dv(e.a, v, env))
    [] e.op = "pow"   -> IF IsIntConst(e.b)
                         THEN IF e.b.i = 0 THEN R0
                              ELSE RMul(RMul(RInt(e.b.i), RPowI(Eval(e.a, env), e.b.i - 1)), Dv(e.a, v, env))
                         ELSE RAdd(RMul(RDec(Num(env.tab[e.id].da)), Dv(e.a, v, env)),
                                   RMul(RDec(Num(env.tab[e.id].db)), Dv(e.b, v, env)))
    [] e.op = "fn"    -> RMul(RDec(Num(env.tab[e.id].da)), Dv(e.a, v, env))          \* chain rule
    [] e.op = "ifelse" -> IF Holds(e.c, env) THEN Dv(e.a, v, env) ELSE Dv(e.b, v, env)
    [] e.op = "cond"  -> LET first == {i \in DOMAIN e.cases : Holds(e.cases[i].c, env) /\ \A j \in 1..(i - 1) : ~Holds(e.cases[j].c, env)}
                         IN  IF first = {} THEN Dv(e.final, v, env) ELSE Dv(e.cases[CHOOSE i \in first : TRUE].e, v, env)

\* the table must have been computed at the arguments the spec evaluates
RECURSIVE TabOK(_, _)
TabOK(e, env) ==
  CASE e.op \in {"var", "param", "const"} -> TRUE
    [] e.op \in {"add", "sub", "mul", "div"} -> TabOK(e.a, env) /\ TabOK(e.b, env)
    [] e.op \in {"neg", "abs", "sign"} -> TabOK(e.a, env)
    [] e.op = "pow" -> /\ TabOK(e.a, env) /\ TabOK(e.b, env)
                       /\ (IsIntConst(e.b) \/ (/\ RClose(Num(env.tab[e.id].arg), Eval(e.a, env), ArgTol, ArgTol)
                                                /\ RClose(Num(env.tab[e.id].argb), Eval(e.b, env), ArgTol, ArgTol)))
    [] e.op = "fn"  -> TabOK(e.a, env) /\ RClose(Num(env.tab[e.id].arg), Eval(e.a, env), ArgTol, ArgTol)
    [] e.op = "ifelse" -> TabOK(e.c.a, env) /\ TabOK(e.a, env) /\ TabOK(e.b, env)
    [] e.op = "cond" -> /\ \A i \in DOMAIN e.cases : TabOK(e.cases[i].c.a, env) /\ TabOK(e.cases[i].e, env)
                        /\ TabOK(e.final, env)

RECURSIVE VarsOf(_)
VarsOf(e) ==
  CASE e.op = "var" -> {e.name}
    [] e.op \in {"param", "const"} -> {}
    [] e.op \in {"add", "sub", "mul", "div", "pow"} -> VarsOf(e.a) \cup VarsOf(e.b)
    [] e.op \in {"neg", "abs", "sign", "fn"} -> VarsOf(e.a)
    [] e.op = "ifelse" -> VarsOf(e.c.a) \cup VarsOf(e.a) \cup VarsOf(e.b)
    [] e.op = "cond" -> UNION {VarsOf(e.cases[i].c.a) \cup VarsOf(e.cases[i].e) : i \in DOMAIN e.cases} \cup VarsOf(e.final)

\* ------------------------------------------------------------------ trace validation
\* Cases: sequence of "evaluate" events, each self-contained:
\*   cons: sequence of [name, expr] currently registered; var, par: values; tab;
\*   obs: [res: name -> number, jac: name -> (var -> number), cidx: name -> int, vidx: var -> int,
\*         live: sequence of live variable names, nx: length of get_x(), build: "" or exception text]
VARIABLES i, viol
Cases == JsonDeserialize(IOEnv.CASES)
Tol == Sci(1, -9)
EventClauses(ev) ==
  LET env == [var |-> ev.var, par |-> ev.par, tab |-> ev.tab]
      names == {ev.cons[k].name : k \in DOMAIN ev.cons}
      live == UNION {VarsOf(ev.cons[k].expr) : k \in DOMAIN ev.cons}
      bad(c, ok) == IF ok THEN {} ELSE {c}
      n == Len(ev.cons) IN
  IF ev.obs.build # "" THEN {"C15.build_ok"}
  ELSE IF ~(\A k \in DOMAIN ev.cons : TabOK(ev.cons[k].expr, env)) THEN {"CERT.bad"}
  ELSE
    bad("C15.live_iff_referenced", {ev.obs.live[k] : k \in DOMAIN ev.obs.live} = live /\ ev.obs.nx = Cardinality(live))
    \cup bad("C15.index_bijection",
             /\ {ev.obs.cidx[c] : c \in names} = 0..(n - 1)
             /\ {ev.obs.vidx[v] : v \in live} = 0..(Cardinality(live) - 1))
    \cup UNION {LET c == ev.cons[k] IN
                bad("C15.residual@" \o c.name, RClose(Num(ev.obs.res[c.name]), Eval(c.expr, env), Tol, Tol))
                \cup UNION {bad("C15.jacobian@" \o c.name \o "/" \o v,
                                RClose(Num(ev.obs.jac[c.name][v]), Dv(c.expr, v, env), Tol, Tol)) : v \in live}
                : k \in DOMAIN ev.cons}
Init == i = 0 /\ viol = {}
Next == i < Len(Cases) /\ i' = i + 1 /\ viol' = EventClauses(Cases[i + 1])
Spec == Init /\ [][Next]_<<i, viol>>
Report == viol # {} => PrintT(<<"VIOL", i, viol>>)
Done == TLCGet("stats").diameter - 1 = Len(Cases)
=============================================================================

----------------------------- MODULE Hydraulics -----------------------------
(***************************************************************************)
(* Observable physics of a WNTR hydraulic solution (C01 C02 C06 C07 C08    *)
(* C09), as predicates over a scenario (network definition in SI units)    *)
(* and a recorded row of SimulationResults.  All arithmetic is exact       *)
(* decimal arithmetic (Dec.tla); rational powers go through verified       *)
(* witnesses (PowCert).  Tolerances are derived from the solver's          *)
(* convergence criterion (max |residual| < 1e-6 in SI units of each        *)
(* constraint) with a factor-2 margin, see DESIGN.md 4.8.                  *)
(*                                                                         *)
(* scenario s:  mode ("DD"|"PDD"), hw ("default"|"piecewise"), H, Pat,     *)
(*   PatStart, Dur, DM, pmin, preq, pexp = <<p,q>>, patterns (record       *)
(*   name -> seq of multipliers), nodes, links (sequences of records)      *)
(* node:  name, type ("J"|"T"|"R"), elev; J: dem = seq of [base, pat],     *)
(*   pmin/preq/pexp overrides (has_pdd), leak = [on, area, cd, start, end];*)
(*   T: init, minl, maxl, diam, vcurve (seq of <<level, volume>>), leak;   *)
(*   R: head (base), pat                                                   *)
(* link:  name, type ("pipe"|"headpump"|"powerpump"|"PRV"|"PSV"|"FCV"|     *)
(*   "TCV"), a, b (start / end node), and per type: len, diam, rough,      *)
(*   minor, cv; A, B, cp, cq (H = A - B q^(cp/cq)); power; setting         *)
(*   cert: verified witnesses [cpow, dpow, k, sqrtk] for pipes             *)
(* row r:  t, head, press, dem, leak (records by node name), flow, status, *)
(*   setting (records by link name), cert (per-row witnesses by link name) *)
(***************************************************************************)
EXTENDS Dec, FiniteSets, TLC

Closed == 0
Open   == 1
Active == 2

\* ------------------------------------------------------------------ constants
G        == Sci(981, -2)
TwoG     == Sci(1962, -2)
RhoG     == FromInt(9810)
Pi2G     == Add(Sci(96820819, -6), Sci(175, -9))     \* 9.81 * pi^2 = 96.820819175 (self-tested by setup)
HWK      == Sci(10667, -3)                           \* documented Hazen-Williams constant (SI)
Tol      == Sci(2, -6)                               \* 2 x solver tolerance
TolF     == Sci(1, -9)                               \* float noise of derived quantities
Qtol     == Add(Sci(283168, -11), Zero)              \* 2.83168e-6 m3/s
Htol     == Sci(1524, -7)                            \* 0.0001524 m
Q2       == Sci(4, -4)                               \* upper end of the Hazen-Williams smoothing band
Q2Pow    == Sci(50936, -11)                          \* (4e-4)^1.852 = 5.09349e-7, rounded up (self-tested)
PK       == 1000000                                  \* 1/K relative slack of power certificates
One      == FromInt(1)

N(x) == Num(x)
Nodes(s) == {s.nodes[i].name : i \in DOMAIN s.nodes}
NodeRec(s, n) == s.nodes[CHOOSE i \in DOMAIN s.nodes : s.nodes[i].name = n]
Sources(s) == {s.nodes[i].name : i \in {j \in DOMAIN s.nodes : s.nodes[j].type # "J"}}

\* ------------------------------------------------------------------ adjacency and reachability (C09)
\* a link is a barrier only when its reported status is Closed
RECURSIVE Grow(_, _, _)
Grow(s, r, R) ==
  LET R2 == R \cup {s.links[i].b : i \in {j \in DOMAIN s.links : s.links[j].a \in R /\ r.status[s.links[j].name] # Closed}}
               \cup {s.links[i].a : i \in {j \in DOMAIN s.links : s.links[j].b \in R /\ r.status[s.links[j].name] # Closed}}
  IN  IF R2 = R THEN R ELSE Grow(s, r, R2)
Reach(s, r) == Grow(s, r, Sources(s))
IsolatedLink(s, reach, l) == l.a \notin reach \/ l.b \notin reach

\* ------------------------------------------------------------------ C01 mass balance
RECURSIVE NetIn(_, _, _, _)
NetIn(s, r, n, i) ==      \* sum of flows of links ending at n minus links starting at n
  IF i > Len(s.links) THEN Zero
  ELSE LET l == s.links[i]  q == N(r.flow[l.name])
       IN  Add(IF l.b = n /\ l.a # n THEN q ELSE IF l.a = n /\ l.b # n THEN Neg(q) ELSE Zero, NetIn(s, r, n, i + 1))

JunctionBalance(s, r, n) ==
  Within(NetIn(s, r, n, 1), Add(N(r.dem[n]), N(r.leak[n])), Tol)
SourceDemand(s, r, n) ==
  Close(N(r.dem[n]), Sub(NetIn(s, r, n, 1), N(r.leak[n])), TolF, TolF)

\* a pattern that does not wrap (s.nowrap) is 0 after its last step (a single multiplier always applies, as in Pattern.at)
NoWrap(s, pat) == \E i \in DOMAIN s.nowrap : s.nowrap[i] = pat
PatMult(s, pat, t) ==
  IF pat = "" THEN One
  ELSE LET m == s.patterns[pat]  step == (t + s.PatStart) \div s.Pat IN
       IF Len(m) = 0 THEN One
       ELSE IF NoWrap(s, pat) /\ Len(m) > 1 /\ step >= Len(m) THEN Zero
       ELSE N(m[(step % Len(m)) + 1])
RECURSIVE DemSum(_, _, _, _)
DemSum(s, d, t, i) == IF i > Len(d) THEN Zero
                      ELSE Add(Mul(Mul(N(d[i].base), PatMult(s, d[i].pat, t)), N(s.DM)), DemSum(s, d, t, i + 1))
Requested(s, nd, t) == DemSum(s, nd.dem, t, 1)
\* with options.time.pattern_interpolation the multiplier is linear between the value of the current pattern step and
\* the next one (wrapping): P * mult = P * last + (next - last) * ((t + PatStart) mod P), kept scaled by P to stay exact
PatMultP(s, pat, t) ==
  IF pat = "" THEN FromInt(s.Pat)
  ELSE LET m == s.patterns[pat] IN
       IF Len(m) = 0 THEN FromInt(s.Pat)
       ELSE IF Len(m) = 1 THEN Mul(FromInt(s.Pat), N(m[1]))
       ELSE LET tau == t + s.PatStart
                k == (tau \div s.Pat) % Len(m)
                lastM == N(m[k + 1])
                nextM == N(m[((k + 1) % Len(m)) + 1])
            IN  Add(Mul(FromInt(s.Pat), lastM), Mul(Sub(nextM, lastM), FromInt(tau % s.Pat)))
RECURSIVE DemSumP(_, _, _, _)
DemSumP(s, d, t, i) == IF i > Len(d) THEN Zero
                       ELSE Add(Mul(Mul(N(d[i].base), PatMultP(s, d[i].pat, t)), N(s.DM)), DemSumP(s, d, t, i + 1))
DDDemand(s, r, nd) ==
  IF s.interp THEN Close(Mul(N(r.dem[nd.name]), FromInt(s.Pat)), DemSumP(s, nd.dem, r.t, 1), Mul(Sci(1, -12), FromInt(s.Pat)), TolF)
  ELSE Close(N(r.dem[nd.name]), Requested(s, nd, r.t), Sci(1, -12), TolF)

\* ------------------------------------------------------------------ C02 link laws
HeadAt(r, n) == N(r.head[n])
\* head at a node as the solver sees it: isolated junctions are reported as 0 but not used by any open law
DH(r, l) == Sub(HeadAt(r, l.a), HeadAt(r, l.b))          \* start minus end

\* resistance witnesses of a pipe are verified once per trace (CertOK) and then used
PipeCertOK(l) ==
  LET c == l.cert IN
  /\ PowCert(N(l.rough), 463, 250, N(c.cpow), PK)
  /\ PowCert(N(l.diam), 4871, 1000, N(c.dpow), PK)
  /\ Close(Mul(N(c.k), Mul(N(c.cpow), N(c.dpow))), Mul(HWK, N(l.len)), Zero, Sci(1, -5))
  /\ Close(Mul(N(c.sqrtk), N(c.sqrtk)), N(c.k), Zero, Sci(1, -5))
\* minor loss coefficient m = 8 K / (g pi^2 d^4):  m * (g pi^2) * d^4 = 8 K   (checked by cross-multiplication)
D4(l) == LET d2 == Mul(N(l.diam), N(l.diam)) IN Mul(d2, d2)
\* minor-loss head m*q^2 times the denominator:  hm * Pi2G * d^4 = 8 K q^2
MinorTimesDen(K, q) == Mul(Mul(FromInt(8), K), Mul(q, q))

\* open pipe, |q| >= Q2:  dh = sgn(q) (k |q|^1.852 + m q^2) [+ 1e-5 sqrt(k) q]
\* multiply through by Den = Pi2G * d^4 to avoid the division in m
PipeHW(s, r, l) ==
  LET q    == N(r.flow[l.name])
      aq   == Abs(q)
      w    == N(r.cert[l.name].qpow)
      c    == l.cert
      den  == Mul(Pi2G, D4(l))
      fric == Mul(N(c.k), w)                                   \* k |q|^1.852
      lhs  == Mul(Abs(DH(r, l)), den)
      rhs  == Add(Mul(fric, den), MinorTimesDen(N(l.minor), q))
      smooth == Mul(Sci(1, -5), Mul(N(c.sqrtk), aq))           \* documented smoothing term (default mode)
      tol  == Mul(Add(Add(Tol, smooth), Mul(Sci(1, -4), fric)), den)
  IN  /\ PowCert(aq, 463, 250, w, PK)
      /\ Sgn(DH(r, l)) = Sgn(q)
      /\ Leq(Abs(Sub(lhs, rhs)), Add(tol, Mul(Sci(1, -6), rhs)))
\* smoothing band |q| < Q2: odd and bounded by the law at Q2
PipeBand(s, r, l) ==
  LET q   == N(r.flow[l.name])
      c   == l.cert
      den == Mul(Pi2G, D4(l))
      bound == Add(Add(Mul(N(c.k), Q2Pow), Mul(Sci(1, -5), Mul(N(c.sqrtk), Q2))), Tol)
      dh  == DH(r, l)
  IN  /\ Leq(Mul(Abs(dh), den), Add(Mul(Mul(bound, Sci(10001, -4)), den), MinorTimesDen(N(l.minor), Q2)))
      /\ (Gt(Abs(dh), Tol) /\ Gt(Abs(q), Sci(1, -9)) => Sgn(dh) = Sgn(q))

\* head pump: gain = A - B q^(cp/cq) above the smoothing point
PumpCurve(s, r, l) ==
  LET q == N(r.flow[l.name])
      gain == Sub(HeadAt(r, l.b), HeadAt(r, l.a))
      w == N(r.cert[l.name].qpow)
  IN  IF Geq(q, Sci(1, -6))
      THEN /\ PowCert(q, l.cp, l.cq, w, PK)
           /\ Close(gain, Sub(N(l.A), Mul(N(l.B), w)), Tol, Sci(2, -6))
      ELSE \* smoothing region near zero flow: the gain is the shut-off head up to the curve's drop at 1e-6
           /\ Geq(q, Neg(Qtol))
           /\ Leq(Abs(Sub(gain, N(l.A))), Add(Sci(1, -4), Mul(N(l.B), Sci(1, -3))))
\* power pump: P = rho g q gain
PowerPump(s, r, l) ==
  LET q == N(r.flow[l.name])  gain == Sub(HeadAt(r, l.b), HeadAt(r, l.a))
  IN  Close(Mul(Mul(RhoG, q), gain), N(l.power), Tol, Sci(1, -9))

\* valves
ValveMinor(s, r, l, K) ==     \* dh = sgn(q) m q^2 with m = 8K/(g pi^2 d^4)
  LET q == N(r.flow[l.name])  den == Mul(Pi2G, D4(l))
      lhs == Mul(DH(r, l), den)
      rhs == Mul(FromInt(Sgn(q)), MinorTimesDen(K, q))
  IN  Leq(Abs(Sub(lhs, rhs)), Add(Mul(Tol, den), Mul(Sci(1, -6), Abs(rhs))))
PRVActive(s, r, l) == Within(HeadAt(r, l.b), Add(N(r.setting[l.name]), N(NodeRec(s, l.b).elev)), Tol)
PSVActive(s, r, l) == Within(HeadAt(r, l.a), Add(N(r.setting[l.name]), N(NodeRec(s, l.a).elev)), Tol)
FCVActive(s, r, l) == Within(N(r.flow[l.name]), N(r.setting[l.name]), Tol)
TCVActive(s, r, l) == ValveMinor(s, r, l, N(r.setting[l.name]))
SettingReported(s, r, l) == Close(N(r.setting[l.name]), N(l.setting), Sci(1, -12), TolF)

ClosedZero(r, l) == Leq(Abs(N(r.flow[l.name])), Tol)
NoReverse(r, l)  == Geq(N(r.flow[l.name]), Neg(Qtol))

\* the status branch table: exactly one law per (type, status); returns the set of violated clause names
LinkClauses(s, r, l, reach) ==
  LET st == r.status[l.name]
      q  == N(r.flow[l.name])
      bad(c, ok) == IF ok THEN {} ELSE {c \o "@" \o l.name} IN
  IF IsolatedLink(s, reach, l) THEN bad("C09.isolated_zero", IsZero(q))
  ELSE IF st = Closed THEN bad("C02.closed_zero", ClosedZero(r, l))
  ELSE CASE l.type = "pipe" ->
              (IF Geq(Abs(q), Q2) THEN bad("C02.pipe_hw", PipeHW(s, r, l)) ELSE bad("C02.pipe_band", PipeBand(s, r, l)))
              \cup (IF l.cv THEN bad("C02.no_reverse", NoReverse(r, l)) ELSE {})
              \cup bad("C02.status_domain", st = Open)
         [] l.type = "headpump"  -> bad("C02.headpump_curve", PumpCurve(s, r, l)) \cup bad("C02.no_reverse", NoReverse(r, l))
                                    \cup bad("C02.status_domain", st = Open)
         [] l.type = "powerpump" -> bad("C02.powerpump", PowerPump(s, r, l)) \cup bad("C02.no_reverse", NoReverse(r, l))
                                    \cup bad("C02.status_domain", st = Open)
         [] l.type = "PRV" -> IF st = Active THEN bad("C02.prv_active", PRVActive(s, r, l))
                              ELSE bad("C02.valve_open_minor", ValveMinor(s, r, l, N(l.minor)))
         [] l.type = "PSV" -> IF st = Active THEN bad("C02.psv_active", PSVActive(s, r, l))
                              ELSE bad("C02.valve_open_minor", ValveMinor(s, r, l, N(l.minor)))
         [] l.type = "FCV" -> IF st = Active THEN bad("C02.fcv_active", FCVActive(s, r, l))
                              ELSE bad("C02.valve_open_minor", ValveMinor(s, r, l, N(l.minor)))
         [] l.type = "TCV" -> IF st = Active THEN bad("C02.tcv_active", TCVActive(s, r, l))
                              ELSE bad("C02.valve_open_minor", ValveMinor(s, r, l, N(l.minor)))

\* ------------------------------------------------------------------ C07 pressure dependent demand
PddParams(s, nd) == IF nd.has_pdd THEN [pmin |-> N(nd.pmin), preq |-> N(nd.preq), pexp |-> nd.pexp]
                    ELSE [pmin |-> N(s.pmin), preq |-> N(s.preq), pexp |-> s.pexp]
\* a control may change a junction's required pressure during the run (nd.pctl: time-ordered [thr, val]); from the step
\* at thr on the curve of that junction uses the new value
RECURSIVE LastPctl(_, _, _, _)
LastPctl(pc, t, i, cur) == IF i > Len(pc) THEN cur ELSE LastPctl(pc, t, i + 1, IF pc[i].thr <= t THEN N(pc[i].val) ELSE cur)
PddParamsAt(s, nd, t) == LET pp == PddParams(s, nd) IN [pp EXCEPT !.preq = LastPctl(nd.pctl, t, 1, pp.preq)]
Delta == Sci(5, -2)
PDDClauses(s, r, nd) ==
  LET pp == PddParamsAt(s, nd, r.t)
      p  == N(r.press[nd.name])
      d  == N(r.dem[nd.name])
      Dreq  == Requested(s, nd, r.t)
      span == Sub(pp.preq, pp.pmin)
      bad(c, ok) == IF ok THEN {} ELSE {c \o "@" \o nd.name}
      tolD == Add(Tol, Mul(Sci(1, -6), Abs(Dreq)))
  IN  IF Leq(p, pp.pmin) THEN bad("C07.pdd_zero", Leq(Abs(d), Add(tolD, Mul(Abs(Dreq), Mul(Sci(1, -11), Sub(pp.pmin, p))))))
      ELSE IF Geq(p, pp.preq) THEN bad("C07.pdd_full", Within(d, Dreq, Add(tolD, Mul(Abs(Dreq), Mul(Sci(1, -11), Sub(p, pp.preq))))))
      ELSE IF Gt(p, Add(pp.pmin, Delta)) /\ Lt(p, Sub(pp.preq, Delta))
           THEN \* d = Dreq x^e,  x = (p - pmin)/(preq - pmin):  witness w = x^e with x given as a ratio:
                \* (w^q) * span^p = (p - pmin)^p  is checked on the witness pair (xw = x, w)
                LET c == r.cert[nd.name]  x == N(c.x)  w == N(c.xpow) IN
                bad("C07.pdd_power",
                    /\ Close(Mul(x, span), Sub(p, pp.pmin), Zero, Sci(1, -9))
                    /\ PowCert(x, pp.pexp[1], pp.pexp[2], w, PK)
                    /\ Within(d, Mul(Dreq, w), Add(tolD, Mul(Abs(Dreq), Sci(2, -6)))))
      ELSE \* smoothing bands: bounded between the branch values
           bad("C07.pdd_band", Geq(Mul(d, FromInt(Sgn(Dreq))), Neg(tolD)) /\ Leq(Abs(d), Add(Abs(Dreq), tolD)))

\* ------------------------------------------------------------------ C08 leaks
\* q = Cd A sqrt(2 g p) up to the solver tolerance on q, without a root:
\* q0^2 = (Cd A)^2 2 g p  and  q0 in [q - Tol, q + Tol]
LeakLawAbs(s, r, nd) ==
  LET lk == nd.leak  q == N(r.leak[nd.name])  p == N(r.press[nd.name])
      ca == Mul(N(lk.cd), N(lk.area))
      rhs == Mul(Mul(Mul(ca, ca), TwoG), p)         \* q0^2
      lo == Sub(q, Tol)  hi == Add(q, Tol)
  IN  \* q0 in [q - Tol, q + Tol]  <=>  (max(lo,0))^2 <= q0^2 <= hi^2
      /\ Geq(hi, Zero)
      /\ Leq(rhs, Mul(hi, hi))
      /\ (Leq(lo, Zero) \/ Geq(rhs, Mul(lo, lo)))

LeakActiveAt(lk, t) == lk.on /\ lk.start >= 0 /\ t >= lk.start /\ (lk.end < 0 \/ t < lk.end)
LeakClauses(s, r, nd) ==
  LET lk == nd.leak
      q  == N(r.leak[nd.name])
      p  == N(r.press[nd.name])
      bad(c, ok) == IF ok THEN {} ELSE {c \o "@" \o nd.name} IN
  IF ~LeakActiveAt(lk, r.t) THEN bad("C08.leak_inactive", IsZero(q))
  ELSE IF Leq(p, Zero) THEN bad("C08.leak_nonpositive", Leq(Abs(q), Tol))
  ELSE IF Leq(p, Sci(1, -4)) THEN bad("C08.leak_band", Geq(q, Neg(Tol)) /\ Leq(q, Add(Mul(Mul(N(lk.cd), N(lk.area)), Sci(443, -4)), Tol)))
  ELSE bad("C08.leak_law", LeakLawAbs(s, r, nd))

\* ------------------------------------------------------------------ C06 tanks
\* volume as a function of level: cylinder pi d^2/4 * level, or linear interpolation of the curve
RECURSIVE Interp(_, _, _)
Interp(cv, x, i) ==     \* returns <<num, den>> rational: value of the piecewise linear curve at x (clamped)
  LET x0 == N(cv[i][1])  y0 == N(cv[i][2]) IN
  IF Leq(x, x0) THEN <<y0, One>>
  ELSE IF i = Len(cv) THEN <<y0, One>>
  ELSE LET x1 == N(cv[i + 1][1])  y1 == N(cv[i + 1][2]) IN
       IF Leq(x, x1) THEN <<Add(Mul(y0, Sub(x1, x0)), Mul(Sub(y1, y0), Sub(x, x0))), Sub(x1, x0)>>
       ELSE Interp(cv, x, i + 1)
Pi4 == Add(Sci(785398163, -9), Sci(397448, -15))      \* pi/4
TankVol(nd, lvl) == IF nd.vcurve = <<>> THEN <<Mul(Mul(Pi4, Mul(N(nd.diam), N(nd.diam))), lvl), One>>
                    ELSE Interp(nd.vcurve, lvl, 1)
Level(r, nd) == N(r.press[nd.name])
\* a volume curve says nothing outside its first and last level (np.interp clamps there): not asserted
OnCurve(nd, lvl) == nd.vcurve = <<>> \/ (Gt(lvl, N(nd.vcurve[1][1])) /\ Lt(lvl, N(nd.vcurve[Len(nd.vcurve)][1])))
\* between consecutive solved rows: V(level2) - V(level1) = q1 (t2 - t1)
TankStep(p, r, nd) ==
  ~(OnCurve(nd, Level(p, nd)) /\ OnCurve(nd, Level(r, nd))) \/
  LET v1 == TankVol(nd, Level(p, nd))  v2 == TankVol(nd, Level(r, nd))
      dv == RSub(v2, v1)
      want == Mul(N(p.dem[nd.name]), FromInt(r.t - p.t))
      tol == Add(Sci(1, -6), Mul(Sci(1, -8), Add(Abs(want), Add(Abs(v1[1]), Abs(v2[1])))))
  IN  RClose(want, dv, tol, Zero)
TankArea(nd) == Mul(Pi4, Mul(N(nd.diam), N(nd.diam)))
TankInit(r, nd) == Close(Level(r, nd), N(nd.init), Sci(1, -9), TolF)
\* limits up to the volume of two seconds of the tank's flow (cylinder or volume curve)
TankLimits(qprev, r, nd) ==      \* qprev: the largest net inflow magnitude reported so far
  ~OnCurve(nd, Level(r, nd)) \/
  LET lvl == Level(r, nd)
      v   == TankVol(nd, lvl)
      q2s == Add(Mul(FromInt(2), MaxD(Abs(qprev), Abs(N(r.dem[nd.name])))), Sci(1, -6))
  IN  /\ (Lt(lvl, N(nd.minl)) => RCmp(RSub(TankVol(nd, N(nd.minl)), v), RDec(q2s)) <= 0)
      /\ (Gt(lvl, N(nd.maxl)) => RCmp(RSub(v, TankVol(nd, N(nd.maxl))), RDec(q2s)) <= 0)
NoDrainAtMin(r, nd) == Leq(Level(r, nd), Add(N(nd.minl), Sci(1, -6))) => Geq(N(r.dem[nd.name]), Neg(Qtol))
NoFillAtMax(r, nd)  == Geq(Level(r, nd), Sub(N(nd.maxl), Sci(1, -6))) => Leq(N(r.dem[nd.name]), Qtol)

\* ------------------------------------------------------------------ C05 conditional simple controls
\* control c = [node, attr ("level"|"pressure"), rel (">"|"<"), thr, link (name), what ("status"|"setting"), val, prio]
CondValue(r, c) == N(r.press[c.node])            \* tank level and junction pressure are both the reported pressure
Margin == Sci(1, -6)
CondTrue(r, c)  == IF c.rel = ">" THEN Gt(CondValue(r, c), Add(N(c.thr), Margin)) ELSE Lt(CondValue(r, c), Sub(N(c.thr), Margin))
CondFalse(r, c) == IF c.rel = ">" THEN Lt(CondValue(r, c), Sub(N(c.thr), Margin)) ELSE Gt(CondValue(r, c), Add(N(c.thr), Margin))
LinkRec(s, n) == s.links[CHOOSE i \in DOMAIN s.links : s.links[i].name = n]
TankAtLimit(s, r, n) ==
  LET nd == NodeRec(s, n) IN
  nd.type = "T" /\ (Leq(Level(r, nd), Add(N(nd.minl), Sci(1, -3))) \/ Geq(Level(r, nd), Sub(N(nd.maxl), Sci(1, -3))))
\* what may hold a link closed against a command to open: its own check valve, a pump's shut-off rule, an adjacent
\* tank at a level limit (the exceptions the property names; isolation is not one of them)
HeldClosed(s, r, l, reach) == (l.type = "pipe" /\ l.cv) \/ l.type \in {"headpump", "powerpump"}
                              \/ TankAtLimit(s, r, l.a) \/ TankAtLimit(s, r, l.b)
Obeyed(s, r, c, reach) ==
  LET l == LinkRec(s, c.link) IN
  IF c.what = "setting" THEN Close(N(r.setting[c.link]), N(c.val), Sci(1, -9), TolF)
  ELSE IF c.val = 0 THEN r.status[c.link] = Closed
  ELSE r.status[c.link] # Closed \/ HeldClosed(s, r, l, reach)
\* d contradicts c: same target attribute with another value, or - on a valve - a setting control (which makes the valve
\* Active) against a status control that closes it; only a control of equal or higher priority may win
Conflicts(c, d) == /\ d.link = c.link /\ d.prio >= c.prio
                   /\ \/ (d.what = c.what /\ (IF c.what = "setting" THEN ~Eq(N(d.val), N(c.val)) ELSE d.val # c.val))
                      \/ (c.what = "status" /\ c.val = 0 /\ d.what = "setting")
CtlConsistent(s, r, reach) ==        \* set of indices of violated controls
  {i \in DOMAIN s.cctl :
     LET c == s.cctl[i] IN
     /\ CondTrue(r, c)
     /\ ~(\E j \in DOMAIN s.cctl : j # i /\ ~CondFalse(r, s.cctl[j]) /\ Conflicts(c, s.cctl[j]))
     /\ ~(\E j \in DOMAIN s.ctl : s.links[s.ctl[j].link].name = c.link)          \* a time control on the same link: open
     /\ ~Obeyed(s, r, c, reach)}
\* a tank-level threshold is met by a partial step, not overshot by a whole hydraulic step: when the condition of a
\* level control turns from false to true between two solved rows, the level is within two seconds of flow of it
NoOvershoot(s, p, r) ==
  {i \in DOMAIN s.cctl :
     LET c == s.cctl[i]  nd == NodeRec(s, c.node) IN
     /\ c.attr = "level" /\ OnCurve(nd, Level(r, nd)) /\ OnCurve(nd, N(c.thr))
     /\ CondFalse(p, c) /\ CondTrue(r, c)
     \* only a control whose action actually changes its link forces a step (firing without effect needs none)
     /\ (IF c.what = "setting" THEN ~Close(N(p.setting[c.link]), N(c.val), Sci(1, -9), TolF)
         ELSE IF c.val = 0 THEN p.status[c.link] # Closed
         \* a link that its check valve, shut-off rule or a tank at a limit held closed opens by that mechanism, not by the control
         ELSE p.status[c.link] = Closed /\ r.status[c.link] # Closed /\ ~HeldClosed(s, p, LinkRec(s, c.link), {}))
     \* in volume terms (cylinder or volume curve): |V(level) - V(threshold)| <= 2 s of the tank's flow
     /\ ~RClose(Zero, RSub(TankVol(nd, Level(r, nd)), TankVol(nd, N(c.thr))),
                Add(Mul(FromInt(2), MaxD(Abs(N(p.dem[c.node])), Abs(N(r.dem[c.node])))), Sci(1, -5)), Zero)}
=============================================================================

----------------------------- MODULE UnitsTrace -----------------------------
(* C17 conformance: every recorded call of wntr.epanet.util.to_si / from_si *)
(* is checked against the normative table of Units.tla.                     *)
EXTENDS Units, Sequences, Json, IOUtils
VARIABLES i, viol
Cases == JsonDeserialize(IOEnv.CASES)

Row(c) == [kind |-> c.kind, fu |-> c.fu, param |-> c.param, dw |-> c.dw, mass |-> c.mass, order |-> c.order]

\* y = f * x  (or y^2 = F2 * x^2 when the table gives the square)
IsProduct(c, y, x) ==
   LET f == Factor(Row(c)) IN
   IF f.sq THEN /\ Sgn(y) = Sgn(x)
                /\ RClose(Mul(y, y), RMul(f.r, RDec(Mul(x, x))), Zero, Mul(FromInt(2), RTol(Row(c))))
   ELSE RClose(y, RMul(f.r, RDec(x)), Zero, RTol(Row(c)))
IsQuotient(c, y, x) == IsProduct(c, x, y)      \* y = x / f  <=>  x = f * y

Tiny == Sci(1, -13)
Clauses(c) ==
  LET n == Len(c.xs) IN
  (IF \A k \in 1..n : IsProduct(c, Num(c.to[k]), Num(c.xs[k])) THEN {} ELSE {"C17.factor_to_si"})
  \cup (IF \A k \in 1..n : IsQuotient(c, Num(c.from[k]), Num(c.xs[k])) THEN {} ELSE {"C17.factor_from_si"})
  \cup (IF \A k \in 1..n : Close(Num(c.rt[k]), Num(c.xs[k]), Zero, Sci(1, -12)) THEN {} ELSE {"C17.inverse"})
  \cup (IF /\ Close(Num(c.lin.tsum), Add(Num(c.lin.ta), Num(c.lin.tb)), Zero, Sci(1, -12))
           /\ Close(Num(c.lin.fsum), Add(Num(c.lin.fa), Num(c.lin.fb)), Zero, Sci(1, -12))
        THEN {} ELSE {"C17.linear"})
  \cup (IF \A k \in 1..Len(c.cont) :
             LET t == c.cont[k] IN
             /\ t.exc = ""
             /\ t.tin = t.tout
             /\ t.kin = t.kout
             /\ Len(t.vals) = n
             /\ \A j \in 1..n : Close(Num(t.vals[j]), Num(IF t.dir = "to" THEN c.to[j] ELSE c.from[j]), Zero, Sci(1, -12))
        THEN {} ELSE {"C17.container"})
  \cup (IF c.trad = (Family(c.fu) = "US") /\ c.metric = (Family(c.fu) = "metric") THEN {} ELSE {"C17.family"})

Init == i = 0 /\ viol = {}
Next == /\ i < Len(Cases) /\ i' = i + 1
        /\ viol' = Clauses(Cases[i + 1])
Spec == Init /\ [][Next]_<<i, viol>>
Report == viol # {} => PrintT(<<"VIOL", i, viol>>)
Done == TLCGet("stats").diameter - 1 = Len(Cases)
=============================================================================

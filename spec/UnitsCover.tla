----------------------------- MODULE UnitsCover -----------------------------
(* C17 exhaustiveness: the rows exercised on the implementation (IOEnv.CASES, row keys only) cover *)
(* the complete table Rows of Units.tla, and the implementation's enums have no member the table   *)
(* does not know (every recorded row is a row of the table).                                      *)
EXTENDS Units, Sequences, Json, IOUtils
VARIABLES i, viol
Cases == JsonDeserialize(IOEnv.CASES)
Row(c) == [kind |-> c.kind, fu |-> c.fu, param |-> c.param, dw |-> c.dw, mass |-> c.mass, order |-> c.order]
Seen == {Row(Cases[k]) : k \in 1..Len(Cases)}
Init == i = 0 /\ viol = {}
Next == i < 1 /\ i' = 1 /\ viol' = (IF Rows \subseteq Seen THEN {} ELSE {"C17.table_not_covered"})
                                   \cup (IF Seen \subseteq Rows THEN {} ELSE {"C17.unknown_row"})
Spec == Init /\ [][Next]_<<i, viol>>
Report == viol # {} => PrintT(<<"VIOL", i, viol>>)
Done == TLCGet("stats").diameter - 1 = 1
=============================================================================

------------------------------- MODULE Dec -------------------------------
(***************************************************************************)
(* Exact signed decimal arithmetic for TLC.                                *)
(*                                                                         *)
(* TLC integers are 32 bit and TLA+ has no reals, so every real quantity   *)
(* of the WNTR specifications is a decimal  (-1)^n * M * 10^e  with M an   *)
(* unbounded natural kept as a little-endian sequence of base-10^4 limbs.  *)
(* Values are records [n |-> BOOLEAN, m |-> limbs, e |-> Int].             *)
(* Add/Sub/Mul/Cmp are exact.  There is no division: laws are checked by   *)
(* cross-multiplication.  Rational exponents go through PowCert, which     *)
(* verifies a witness y for x^(p/q) with truncated 28-digit floats.        *)
(* The harness logs a Python float as its shortest round-trip decimal      *)
(* (17 significant digits), so the logged value is the double up to half   *)
(* an ulp.                                                                 *)
(***************************************************************************)
EXTENDS Integers, Sequences

B == 10000

\* ------------------------------------------------------------ magnitudes
RECURSIVE Trim(_)
Trim(s) == IF s = <<>> THEN s
           ELSE IF s[Len(s)] = 0 THEN Trim(SubSeq(s, 1, Len(s) - 1)) ELSE s

RECURSIVE Carry(_, _)
Carry(s, c) == IF s = <<>> THEN (IF c = 0 THEN <<>> ELSE <<c % B>> \o Carry(<<>>, c \div B))
               ELSE LET v == s[1] + c IN <<v % B>> \o Carry(Tail(s), v \div B)

L(s, i) == IF i <= Len(s) THEN s[i] ELSE 0
MaxI(a, b) == IF a > b THEN a ELSE b
MinI(a, b) == IF a < b THEN a ELSE b

MAdd(a, b) == Trim(Carry([i \in 1..MaxI(Len(a), Len(b)) |-> L(a, i) + L(b, i)], 0))

RECURSIVE MCmpAt(_, _, _)
MCmpAt(a, b, i) == IF i = 0 THEN 0
                   ELSE IF L(a, i) > L(b, i) THEN 1
                   ELSE IF L(a, i) < L(b, i) THEN -1 ELSE MCmpAt(a, b, i - 1)
MCmp(a, b) == IF Len(a) > Len(b) THEN 1 ELSE IF Len(a) < Len(b) THEN -1 ELSE MCmpAt(a, b, Len(a))

RECURSIVE Borrow(_, _, _)
Borrow(a, b, c) ==    \* a >= b assumed
   IF a = <<>> THEN <<>> ELSE
   LET v  == a[1] - L(b, 1) - c
       tb == IF b = <<>> THEN b ELSE Tail(b)
   IN  IF v < 0 THEN <<v + B>> \o Borrow(Tail(a), tb, 1) ELSE <<v>> \o Borrow(Tail(a), tb, 0)
MSub(a, b) == Trim(Borrow(a, b, 0))

RECURSIVE SumTo(_, _, _, _)
SumTo(a, b, k, i) ==
   IF i > Len(a) THEN 0
   ELSE (IF k - i + 1 >= 1 /\ k - i + 1 <= Len(b) THEN a[i] * b[k - i + 1] ELSE 0) + SumTo(a, b, k, i + 1)
\* column sums stay below 2^31 for operands of up to 21 limbs (21 * 9999^2 < 2^31)
MMulRaw(a, b) == Trim(Carry([k \in 1..(Len(a) + Len(b) - 1) |-> SumTo(a, b, k, 1)], 0))
MMul(a, b) == IF a = <<>> \/ b = <<>> THEN <<>> ELSE MMulRaw(a, b)

RECURSIVE MFromNat(_)
MFromNat(i) == IF i = 0 THEN <<>> ELSE <<i % B>> \o MFromNat(i \div B)

Zeros(k) == [i \in 1..k |-> 0]
P10(k) == CASE k = 0 -> 1 [] k = 1 -> 10 [] k = 2 -> 100 [] k = 3 -> 1000
\* m * 10^k, k >= 0
MShift(m, k) == IF m = <<>> THEN m
                ELSE LET s == Zeros(k \div 4) \o m
                     IN  IF k % 4 = 0 THEN s ELSE MMul(s, <<P10(k % 4)>>)

\* ------------------------------------------------------------ signed decimals
D(n, m, e) == [n |-> n /\ m # <<>>, m |-> m, e |-> IF m = <<>> THEN 0 ELSE e]
Zero == D(FALSE, <<>>, 0)
IsZero(x) == x.m = <<>>
Neg(x) == D(~x.n, x.m, x.e)
Abs(x) == D(FALSE, x.m, x.e)
\* magnitude of x at exponent e <= x.e
AtExp(x, e) == MShift(x.m, x.e - e)
Add(x, y) ==
   IF IsZero(x) THEN y ELSE IF IsZero(y) THEN x ELSE
   LET e == MinI(x.e, y.e)  a == AtExp(x, e)  b == AtExp(y, e) IN
   IF x.n = y.n THEN D(x.n, MAdd(a, b), e)
   ELSE IF MCmp(a, b) >= 0 THEN D(x.n, MSub(a, b), e) ELSE D(y.n, MSub(b, a), e)
Sub(x, y) == Add(x, Neg(y))
Mul(x, y) == D(x.n # y.n, MMul(x.m, y.m), x.e + y.e)
CmpAbs(x, y) == IF IsZero(x) THEN (IF IsZero(y) THEN 0 ELSE -1) ELSE IF IsZero(y) THEN 1 ELSE
                LET e == MinI(x.e, y.e) IN MCmp(AtExp(x, e), AtExp(y, e))
Cmp(x, y) == IF x.n /\ ~y.n THEN -1 ELSE IF ~x.n /\ y.n THEN 1
             ELSE IF x.n THEN CmpAbs(y, x) ELSE CmpAbs(x, y)
Leq(x, y) == Cmp(x, y) <= 0
Lt(x, y)  == Cmp(x, y) < 0
Geq(x, y) == Cmp(x, y) >= 0
Gt(x, y)  == Cmp(x, y) > 0
Eq(x, y)  == Cmp(x, y) = 0
Sgn(x) == IF IsZero(x) THEN 0 ELSE IF x.n THEN -1 ELSE 1
FromInt(i) == IF i < 0 THEN D(TRUE, MFromNat(-i), 0) ELSE D(FALSE, MFromNat(i), 0)
\* i * 10^e
Sci(i, e) == LET x == FromInt(i) IN D(x.n, x.m, e)
MaxD(x, y) == IF Geq(x, y) THEN x ELSE y
MinD(x, y) == IF Leq(x, y) THEN x ELSE y
\* read a logged number (JSON record with keys n, m, e)
Num(j) == D(j.n, j.m, j.e)

\* |x - y| <= tol
Within(x, y, tol) == Leq(Abs(Sub(x, y)), tol)
\* |x - y| <= atol + rtol * max(|x|,|y|)
Close(x, y, atol, rtol) == Leq(Abs(Sub(x, y)), Add(atol, Mul(rtol, MaxD(Abs(x), Abs(y)))))

RECURSIVE SumSeq(_)
SumSeq(s) == IF s = <<>> THEN Zero ELSE Add(Head(s), SumSeq(Tail(s)))

\* ------------------------------------------------------------ rationals <<num, den>>, den > 0
Rat(a, b) == <<a, b>>
RMul(r, s) == <<Mul(r[1], s[1]), Mul(r[2], s[2])>>
RAdd(r, s) == <<Add(Mul(r[1], s[2]), Mul(s[1], r[2])), Mul(r[2], s[2])>>
RSub(r, s) == <<Sub(Mul(r[1], s[2]), Mul(s[1], r[2])), Mul(r[2], s[2])>>
RDiv(r, s) == IF s[1].n THEN <<Neg(Mul(r[1], s[2])), Mul(r[2], Abs(s[1]))>>
              ELSE <<Mul(r[1], s[2]), Mul(r[2], s[1])>>
RInt(i) == <<FromInt(i), FromInt(1)>>
RDec(x) == <<x, FromInt(1)>>
RCmp(r, s) == Cmp(Mul(r[1], s[2]), Mul(s[1], r[2]))
\* |x - r| <= atol + rtol*|r|   (x decimal, r rational)
RClose(x, r, atol, rtol) ==
   Leq(Abs(Sub(Mul(x, r[2]), r[1])), Add(Mul(atol, r[2]), Mul(rtol, Abs(r[1]))))

\* ------------------------------------------------------------ truncated floats and power certificates
\* float: [m |-> limbs (<= P limbs), e |-> limb exponent], value = m * B^e  (non-negative)
P == 8
TruncF(m, e) == IF Len(m) <= P THEN [m |-> m, e |-> e]
                ELSE [m |-> SubSeq(m, Len(m) - P + 1, Len(m)), e |-> e + (Len(m) - P)]
FMul(a, b) == TruncF(MMul(a.m, b.m), a.e + b.e)
RECURSIVE FPow(_, _)
FPow(a, n) == IF n = 1 THEN a
              ELSE LET h == FPow(a, n \div 2)  s == FMul(h, h) IN IF n % 2 = 0 THEN s ELSE FMul(s, a)
AlignF(a, e) == IF a.e >= e THEN Zeros(a.e - e) \o a.m
                ELSE IF e - a.e >= Len(a.m) THEN <<>> ELSE SubSeq(a.m, e - a.e + 1, Len(a.m))
\* |a - b| <= max(a,b)/K
CloseF(a, b, K) ==
   LET e == MinI(a.e, b.e)
       x == AlignF(a, e)  y == AlignF(b, e)
       d == IF MCmp(x, y) >= 0 THEN MSub(x, y) ELSE MSub(y, x)
       big == IF MCmp(x, y) >= 0 THEN x ELSE y
   IN  MCmp(MMul(d, MFromNat(K)), big) <= 0
\* decimal x >= 0 as float: shift so that the decimal exponent is a multiple of 4
ToF(x) == LET r == x.e % 4 IN [m |-> MShift(x.m, r), e |-> (x.e - r) \div 4]
\* witness check: y = x^(p/q) up to relative 1/K on the q-th power (x, y > 0; p, q >= 1)
PowCert(x, p, q, y, K) ==
   IF IsZero(x) THEN IsZero(y)
   ELSE ~IsZero(y) /\ ~x.n /\ ~y.n /\ CloseF(FPow(ToF(x), p), FPow(ToF(y), q), K)
=============================================================================

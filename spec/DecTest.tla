------------------------------ MODULE DecTest ------------------------------
(* Self-test of Dec.tla against cases computed by Python's exact arithmetic *)
(* (fractions / decimal).  Run by `./check setup` and by every numeric check.*)
EXTENDS Hydraulics, Json, IOUtils
VARIABLES i, bad
Cases == JsonDeserialize(IOEnv.CASES)
Check(c) ==
  LET x == Num(c.x)  y == Num(c.y) IN
  CASE c.op = "add"  -> Eq(Add(x, y), Num(c.z))
    [] c.op = "sub"  -> Eq(Sub(x, y), Num(c.z))
    [] c.op = "mul"  -> Eq(Mul(x, y), Num(c.z))
    [] c.op = "cmp"  -> Cmp(x, y) = c.r
    [] c.op = "pow"  -> PowCert(x, c.p, c.q, y, c.k) = c.ok
    [] c.op = "const" -> Close(x, CASE c.name = "Pi2G" -> Pi2G [] c.name = "Pi4" -> Pi4 [] c.name = "Q2Pow" -> Q2Pow
                                       [] c.name = "Qtol" -> Qtol [] c.name = "TwoG" -> TwoG, Zero, Num(c.y))
    [] c.op = "rclose" -> RClose(x, RDiv(RDec(y), RDec(Num(c.z))), Num(c.atol), Num(c.rtol)) = c.ok
Init == i = 0 /\ bad = FALSE
Next == i < Len(Cases) /\ i' = i + 1 /\ bad' = ~Check(Cases[i + 1])
Spec == Init /\ [][Next]_<<i, bad>>
Report == bad => PrintT(<<"VIOL", i, Cases[i].op>>)
Done == TLCGet("stats").diameter - 1 = Len(Cases)
=============================================================================

------------------------------ MODULE Controls ------------------------------
(***************************************************************************)
(* Declarative semantics of time-based controls and rules (C04) - what a   *)
(* user must be able to observe, independent of how run_sim is organised.  *)
(* This is EPANET's semantics (calibrated step by step against the EPANET  *)
(* 2.2 toolkit, see DESIGN.md C04), which WNTR's rules are documented to   *)
(* emulate.  Time is in integer seconds.                                   *)
(*                                                                         *)
(* A scenario s is a record                                                *)
(*   H, Rs, Rep (0 = 'ALL'), Dur, Start  - hydraulic / rule / report step, *)
(*                                         duration, start_clocktime       *)
(*   init   - sequence of initial link statuses (0 closed, 1 open)         *)
(*   ctl    - sequence of simple controls                                  *)
(*            [kind: "sim"|"clock", thr, rep, link, val, prio]             *)
(*   rules  - sequence of rules [cond, then, else, prio]; then/else are    *)
(*            sequences of [link, val]; cond is a tree of atoms            *)
(*            [op:"atom", t:"sim"|"clock", rel, thr] under "and" / "or"    *)
(***************************************************************************)
EXTENDS Integers, Sequences, FiniteSets, SequencesExt, TLC

Day == 86400
SortInts(S) == SetToSortSeq(S, LAMBDA a, b : a < b)

\* ---------------------------------------------------------------- firing instants of simple controls
\* first_day of a clock-time control (optional field fd): days are counted on the clock, day 0 begins at clock 0:00 of the
\* day the simulation starts in
Fd(c) == IF "fd" \in DOMAIN c THEN c.fd ELSE 0
CtlInstants(s, c) ==
  IF c.kind = "sim"
  THEN IF c.rep = 0 THEN (IF c.thr <= s.Dur THEN {c.thr} ELSE {})
       ELSE {c.thr + k * c.rep : k \in 0..((s.Dur - c.thr) \div c.rep)}
  ELSE LET f == (c.thr - s.Start) % Day                       \* every day, honouring start_clocktime,
       IN  {t \in {f + k * Day : k \in 0..((s.Dur - f) \div Day)} : (t + s.Start) \div Day >= Fd(c)}   \* from clock day fd on
CtlFires(s, c, t) == t \in CtlInstants(s, c)

\* ---------------------------------------------------------------- rule conditions, evaluated at a rule instant e
RuleInstants(s) == {k * s.Rs : k \in 1..(s.Dur \div s.Rs)}    \* never 0: not before the first solution
AtomHolds(s, a, e) ==
  LET x == IF a.t = "sim" THEN e ELSE (e + s.Start) % Day IN
  CASE a.rel = "="  -> IF a.t = "sim" THEN a.thr > e - s.Rs /\ a.thr <= e
                       ELSE (x - a.thr) % Day < s.Rs          \* thr passed within the last rule step
    [] a.rel = ">=" -> x >= a.thr
    [] a.rel = ">"  -> x > a.thr
    [] a.rel = "<=" -> x <= a.thr
    [] a.rel = "<"  -> x < a.thr
RECURSIVE Holds(_, _, _)
Holds(s, c, e) == CASE c.op = "atom" -> AtomHolds(s, c, e)
                    [] c.op = "and"  -> Holds(s, c.a, e) /\ Holds(s, c.b, e)
                    [] c.op = "or"   -> Holds(s, c.a, e) \/ Holds(s, c.b, e)
RECURSIVE Atoms(_)
Atoms(c) == IF c.op = "atom" THEN {c} ELSE Atoms(c.a) \cup Atoms(c.b)

\* ---------------------------------------------------------------- applying actions
RECURSIVE ApplyActs(_, _)
ApplyActs(st, acts) == IF acts = <<>> THEN st
                       ELSE ApplyActs([st EXCEPT ![Head(acts).link] = Head(acts).val], Tail(acts))
\* indices of a sequence of records with a prio field, lowest priority first (the highest acts last
\* and therefore wins), registration order among equals
ByPrio(q, I) == SetToSortSeq(I, LAMBDA i, j : q[i].prio < q[j].prio \/ (q[i].prio = q[j].prio /\ i < j))
RECURSIVE RuleFold(_, _, _, _)
RuleFold(s, st, e, order) ==
  IF order = <<>> THEN st
  ELSE LET r == s.rules[Head(order)] IN
       RuleFold(s, ApplyActs(st, IF Holds(s, r.cond, e) THEN r.then ELSE r.else), e, Tail(order))
RuleStep(s, st, e) == RuleFold(s, st, e, ByPrio(s.rules, DOMAIN s.rules))
RECURSIVE CtlFold(_, _, _)
CtlFold(s, st, order) == IF order = <<>> THEN st
                         ELSE LET c == s.ctl[Head(order)] IN CtlFold(s, [st EXCEPT ![c.link] = c.val], Tail(order))
CtlStep(s, st, t) == CtlFold(s, st, ByPrio(s.ctl, {i \in DOMAIN s.ctl : CtlFires(s, s.ctl[i], t)}))

\* ---------------------------------------------------------------- the timeline
Events(s) == UNION {CtlInstants(s, s.ctl[i]) : i \in DOMAIN s.ctl}
             \cup (IF s.rules = <<>> THEN {} ELSE RuleInstants(s))
\* the first event instant after t (Inf when there is none), computed arithmetically
Inf == 2000000000
MinOf(S) == CHOOSE x \in S : \A y \in S : x <= y
NextCtl(s, c, t) ==
  LET f == IF c.kind = "sim" THEN c.thr ELSE (c.thr - s.Start) % Day
      p == IF c.kind = "sim" THEN c.rep ELSE Day
      n == IF t < f THEN f ELSE IF p = 0 THEN Inf ELSE f + (((t - f) \div p) + 1) * p
      later == {x \in CtlInstants(s, c) : x > t}
  IN  IF c.kind = "clock" /\ Fd(c) > 0 THEN (IF later = {} THEN Inf ELSE MinOf(later))
      ELSE IF n > s.Dur THEN Inf ELSE n
NextRule(s, t) == IF s.rules = <<>> THEN Inf
                  ELSE LET n == ((t \div s.Rs) + 1) * s.Rs IN IF n > s.Dur \/ n < s.Rs THEN (IF t < 0 /\ s.Rs <= s.Dur THEN s.Rs ELSE Inf) ELSE n
NextEvent(s, t) == MinOf({NextRule(s, t)} \cup {NextCtl(s, s.ctl[i], t) : i \in DOMAIN s.ctl})
EventStep(s, st, t, rorder) ==
  CtlStep(s, IF s.rules # <<>> /\ t % s.Rs = 0 /\ t > 0 THEN RuleFold(s, st, t, rorder) ELSE st, t)
\* sequence of [t, st, chg] over the event instants in increasing order
RECURSIVE Unfold(_, _, _, _, _)
Unfold(s, st, t, rorder, acc) ==
  IF t = Inf THEN acc
  ELSE LET n == EventStep(s, st, t, rorder)
       IN  Unfold(s, n, NextEvent(s, t), rorder, Append(acc, [t |-> t, st |-> n, chg |-> n # st]))
Timeline(s) == Unfold(s, s.init, NextEvent(s, -1), ByPrio(s.rules, DOMAIN s.rules), <<>>)
\* status vector in force at time t
RECURSIVE LastBefore(_, _, _, _)
LastBefore(tl, i, t, cur) == IF i > Len(tl) \/ tl[i].t > t THEN cur ELSE LastBefore(tl, i + 1, t, tl[i].st)
StatusAt(s, tl, t) == LastBefore(tl, 1, t, s.init)

Grid(s)     == {k * s.H : k \in 0..(s.Dur \div s.H)}
\* times that must be solved: the hydraulic grid and every instant at which something changes
Required(s, tl) == Grid(s) \cup {tl[i].t : i \in {j \in DOMAIN tl : tl[j].chg}}
\* times that may be solved (an instant at which a control fires without changing anything)
Allowed(s, tl)  == Grid(s) \cup {tl[i].t : i \in DOMAIN tl}
OnReport(s, t)  == s.Rep = 0 \/ t % s.Rep = 0

\* ---------------------------------------------------------------- determinacy (outcomes the property leaves open)
ActLinks(acts) == {acts[i].link : i \in DOMAIN acts}
RuleLinks(r) == ActLinks(r.then) \cup ActLinks(r.else)
Conflict(a1, a2) == \E i \in DOMAIN a1, j \in DOMAIN a2 : a1[i].link = a2[j].link /\ a1[i].val # a2[j].val
Determinate(s) ==
  \* two simple controls of equal priority, same link, different value, same instant: open
  /\ \A i, j \in DOMAIN s.ctl : i < j /\ s.ctl[i].link = s.ctl[j].link /\ s.ctl[i].val # s.ctl[j].val
                                 /\ s.ctl[i].prio = s.ctl[j].prio
        => CtlInstants(s, s.ctl[i]) \cap CtlInstants(s, s.ctl[j]) = {}
  \* a rule and a simple control on the same link acting at the same instant: open
  /\ \A i \in DOMAIN s.ctl, j \in DOMAIN s.rules :
        s.ctl[i].link \in RuleLinks(s.rules[j]) => CtlInstants(s, s.ctl[i]) \cap RuleInstants(s) = {}
  \* two rules of equal priority with conflicting actions: open
  /\ \A i, j \in DOMAIN s.rules : i < j /\ s.rules[i].prio = s.rules[j].prio =>
        LET a == s.rules[i]  b == s.rules[j] IN
        ~(Conflict(a.then, b.then) \/ Conflict(a.then, b.else) \/ Conflict(a.else, b.then) \/ Conflict(a.else, b.else))
  \* '=' inside a rule with an ELSE part, and strict clock relations evaluated exactly on their boundary: open
  /\ \A j \in DOMAIN s.rules : \A a \in Atoms(s.rules[j].cond) :
        /\ (a.rel = "=" => s.rules[j].else = <<>>)
        /\ (a.t = "clock" /\ a.rel \in {">", "<"} => \A e \in RuleInstants(s) : (e + s.Start) % Day # a.thr)
=============================================================================

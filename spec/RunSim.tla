------------------------------- MODULE RunSim -------------------------------
(***************************************************************************)
(* The WHOLE control loop of WNTRSimulator.run_sim in one model: simple    *)
(* time controls, simple tank-level controls (with back-tracking to a      *)
(* partial step) and rules whose conditions mix time and tank-level atoms, *)
(* acting on the same links, against an ADVERSARIAL hydraulic environment. *)
(* It unites the time family (WntrSim.tla) and the bucket family           *)
(* (TankCtl.tla) and is shaped like the code (wntr/sim/core.py):           *)
(*                                                                         *)
(*   Presolve   update_tank_heads; presolve_controls.check() (every time   *)
(*              and level control is evaluated ONCE, for the next          *)
(*              hydraulic time); sort by priority, then by decreasing      *)
(*              back-track; the while loop of                              *)
(*              _compute_next_timestep_and_run_presolve_controls_and_rules *)
(*              branch by branch (control before / at / after the next     *)
(*              rule instant, rules only), where every rule instant first  *)
(*              moves the tank level to that instant; change detection     *)
(*              against the 'presolve' reference point; update_tank_heads  *)
(*              for the chosen time                                        *)
(*   Solve      environment: in- and outflow of the hydraulic interval     *)
(*   PostSolve  level controls again on the solved state; a change forces  *)
(*              a re-solve; otherwise the row is accepted and time moves   *)
(*              to the next multiple of the hydraulic step                 *)
(*                                                                         *)
(* World: one tank (area 1), N supply links (link k carries env.fin[k]     *)
(* when open), one demand env.dout.  Levels are even, thresholds odd,      *)
(* flows even: a level never equals a threshold and a back-track quotient  *)
(* is never an integer, so every outcome is determined.                    *)
(* Scenario record (IOEnv.SCN, JSON):                                      *)
(*   id H Rs steps init st0[k] env[j] = [fin[k], dout]  (env = <<>>: the   *)
(*   environment is free and TLC explores every choice per interval)       *)
(*   ctl[i]   = [kind "time"|"level", rel, thr, link, val, prio]           *)
(*   rules[i] = [cond, then, else (sequences of [link, val]), prio]        *)
(*   cond     = [op "atom", t "time"|"level", rel, thr] | [op and/or, a, b]*)
(***************************************************************************)
EXTENDS Integers, Sequences, FiniteSets, SequencesExt, TLC, Json, IOUtils

VARIABLES scn, now, prevT, first, ri,
          level, prevLevel, q,
          last,          \* TankLevelCondition._last_value of every level control (index of ctl; 0 for time controls)
          st,            \* user status of the supply links
          trial, pc, rows,
          env            \* the environment so far: one [fin, dout] per hydraulic interval already entered
vars == <<scn, now, prevT, first, ri, level, prevLevel, q, last, st, trial, pc, rows, env>>
Scenarios == JsonDeserialize(IOEnv.SCN)
ctl == scn.ctl
Links == DOMAIN scn.st0

FloorDiv(a, b) == IF b > 0 THEN a \div b ELSE (-a) \div (-b)
\* TankLevelCondition: '>' is evaluated as '>=', '<' as '<='
HoldsL(c, v) == IF c.rel = ">" THEN v >= c.thr ELSE v <= c.thr
TimeRel(rel, x, thr) == CASE rel = ">=" -> x >= thr [] rel = ">" -> x > thr [] rel = "<=" -> x <= thr [] rel = "<" -> x < thr
LevelAt(t) == IF first THEN level ELSE prevLevel + q * (t - prevT)       \* update_tank_heads (not on the first step)

\* ------------------------------------------------------------------ presolve_controls.check() for the time cur
Check(i, v, cur) ==
  LET c == ctl[i] IN
  IF c.kind = "time" THEN [fire |-> c.thr > prevT /\ c.thr <= cur, back |-> cur - c.thr]
  ELSE [fire |-> HoldsL(c, v),
        back |-> IF HoldsL(c, v) /\ ~HoldsL(c, last[i]) /\ q # 0 THEN FloorDiv(v - c.thr, q) ELSE 0]
ToRun(v, cur) ==
  LET F == {i \in DOMAIN ctl : Check(i, v, cur).fire}
      b0(i) == Check(i, v, cur).back
      ord == SetToSortSeq(F, LAMBDA x, y : b0(x) > b0(y) \/ (b0(x) = b0(y) /\ (ctl[x].prio < ctl[y].prio
                                                \/ (ctl[x].prio = ctl[y].prio /\ x < y))))
  IN  [k \in 1..Len(ord) |-> <<ord[k], IF first THEN 0 ELSE b0(ord[k])>>]

RECURSIVE FireGroup(_, _, _, _)
FireGroup(stt, todo, cnt, back) ==
  IF cnt <= Len(todo) /\ todo[cnt][2] = back
  THEN LET c == ctl[todo[cnt][1]] IN FireGroup([stt EXCEPT ![c.link] = c.val], todo, cnt + 1, back)
  ELSE [st |-> stt, cnt |-> cnt]

\* ------------------------------------------------------------------ rules at the rule instant e
RECURSIVE CondEval(_, _)
CondEval(c, e) == CASE c.op = "atom" -> (IF c.t = "time" THEN TimeRel(c.rel, e, c.thr) ELSE HoldsL(c, LevelAt(e)))
                    [] c.op = "and"  -> CondEval(c.a, e) /\ CondEval(c.b, e)
                    [] c.op = "or"   -> CondEval(c.a, e) \/ CondEval(c.b, e)
RECURSIVE ApplyActs(_, _)
ApplyActs(stt, acts) == IF acts = <<>> THEN stt ELSE ApplyActs([stt EXCEPT ![Head(acts).link] = Head(acts).val], Tail(acts))
RuleOrder == SetToSortSeq(DOMAIN scn.rules, LAMBDA i, j : scn.rules[i].prio < scn.rules[j].prio
                                                            \/ (scn.rules[i].prio = scn.rules[j].prio /\ i < j))
RECURSIVE RunRules(_, _, _)
RunRules(stt, e, order) ==
  IF order = <<>> THEN stt
  ELSE LET r == scn.rules[Head(order)] IN RunRules(ApplyActs(stt, IF CondEval(r.cond, e) THEN r.then ELSE r.else), e, Tail(order))
\* every rule's condition is evaluated on the state at the rule instant BEFORE any rule acts (check(), then run)
Rules(stt, e) == RunRules(stt, e, RuleOrder)

\* ------------------------------------------------------------------ the while loop (x = [now, ri, st, cnt])
RECURSIVE Loop(_, _, _)
Loop(x, todo, ref) ==
  LET ruleT == x.ri * scn.Rs
      hasRules == scn.rules # <<>> IN
  IF ~(x.cnt <= Len(todo) \/ (hasRules /\ ruleT <= x.now)) THEN x
  ELSE IF x.cnt > Len(todo) THEN
         LET n == Rules(x.st, ruleT) IN
         IF n # ref THEN [x EXCEPT !.now = ruleT, !.ri = @ + 1, !.st = n]
         ELSE Loop([x EXCEPT !.ri = @ + 1, !.st = n], todo, ref)
  ELSE LET back == todo[x.cnt][2]  at == x.now - back IN
       IF ~hasRules \/ at < ruleT THEN
         LET g == FireGroup(x.st, todo, x.cnt, back) IN
         IF g.st # ref THEN [x EXCEPT !.now = at, !.st = g.st, !.cnt = g.cnt]
         ELSE Loop([x EXCEPT !.st = g.st, !.cnt = g.cnt], todo, ref)
       ELSE IF at = ruleT THEN
         LET n == Rules(x.st, ruleT)
             g == FireGroup(n, todo, x.cnt, back) IN
         IF g.st # ref THEN [x EXCEPT !.now = at, !.ri = @ + 1, !.st = g.st, !.cnt = g.cnt]
         ELSE Loop([x EXCEPT !.ri = @ + 1, !.st = g.st, !.cnt = g.cnt], todo, ref)
       ELSE
         LET n == Rules(x.st, ruleT) IN
         IF n # ref THEN [x EXCEPT !.now = ruleT, !.ri = @ + 1, !.st = n]
         ELSE Loop([x EXCEPT !.ri = @ + 1, !.st = n], todo, ref)

\* ------------------------------------------------------------------ actions
Init == /\ scn \in {Scenarios[k] : k \in DOMAIN Scenarios}
        /\ now = 0 /\ prevT = -1 /\ first = TRUE /\ ri = 1
        /\ level = scn.init /\ prevLevel = scn.init /\ q = 0
        /\ last = [i \in DOMAIN scn.ctl |-> scn.init]
        /\ st = scn.st0
        /\ trial = 0 /\ pc = "presolve" /\ rows = <<>>
        /\ env = scn.env              \* <<>> = free environment: TLC chooses every interval's flows (adversary)

Presolve ==
  /\ pc = "presolve"
  /\ LET v == LevelAt(now)
         x == Loop([now |-> now, ri |-> ri, st |-> st, cnt |-> 1], ToRun(v, now), st)
     IN  /\ now' = x.now /\ ri' = x.ri /\ st' = x.st
         /\ level' = LevelAt(x.now)
         /\ last' = [i \in DOMAIN ctl |-> IF ctl[i].kind = "level" THEN v ELSE last[i]]
  /\ trial' = 0 /\ pc' = "solve"
  /\ UNCHANGED <<scn, prevT, first, prevLevel, q, rows, env>>

Inflow(e) == LET RECURSIVE Sum(_)
                 Sum(k) == IF k = 0 THEN 0 ELSE Sum(k - 1) + (IF st[k] = 1 THEN e.fin[k] ELSE 0)
             IN  Sum(Len(scn.st0))
\* the flows of a hydraulic interval are fixed when the interval is first entered and stay for its partial steps
EnvChoices == {[fin |-> f, dout |-> d] : f \in [Links -> {2, 4}], d \in {0, 4, 6}}
Solve == /\ pc = "solve"
         /\ LET j == (now \div scn.H) + 1 IN
            IF j <= Len(env) THEN q' = Inflow(env[j]) - env[j].dout /\ env' = env
            ELSE \E e \in EnvChoices : q' = Inflow(e) - e.dout /\ env' = Append(env, e)
         /\ pc' = "postsolve"
         /\ UNCHANGED <<scn, now, prevT, first, ri, level, prevLevel, last, st, trial, rows>>

\* post-solve controls: the level controls whose condition holds on the solved state, in priority order
RECURSIVE FireSeq(_, _)
FireSeq(stt, order) == IF order = <<>> THEN stt ELSE FireSeq([stt EXCEPT ![ctl[Head(order)].link] = ctl[Head(order)].val], Tail(order))
PostSolve ==
  /\ pc = "postsolve"
  /\ LET run == {i \in DOMAIN ctl : ctl[i].kind = "level" /\ HoldsL(ctl[i], level)}
         s2 == FireSeq(st, SetToSortSeq(run, LAMBDA x, y : ctl[x].prio < ctl[y].prio \/ (ctl[x].prio = ctl[y].prio /\ x < y)))
     IN  /\ last' = [i \in DOMAIN ctl |-> IF ctl[i].kind = "level" THEN level ELSE last[i]]
         /\ IF s2 # st
            THEN /\ st' = s2 /\ trial' = trial + 1 /\ pc' = "solve"
                 /\ UNCHANGED <<now, prevT, first, level, prevLevel, q, rows>>
            ELSE /\ rows' = Append(rows, [t |-> now, level |-> level, st |-> st, q |-> q])
                 /\ prevT' = now /\ prevLevel' = level /\ first' = FALSE
                 /\ now' = ((now + scn.H) \div scn.H) * scn.H
                 /\ pc' = IF now' > scn.steps * scn.H THEN "done" ELSE "presolve"
                 /\ UNCHANGED <<st, trial, level, q>>
  /\ UNCHANGED <<scn, ri, env>>

Next == Presolve \/ Solve \/ PostSolve
Spec == Init /\ [][Next]_vars

\* ------------------------------------------------------------------ properties
AbsI(x) == IF x < 0 THEN -x ELSE x
Triggered(c, v) == IF c.rel = ">" THEN v > c.thr ELSE v < c.thr
RECURSIVE ActLinks(_)
ActLinks(acts) == IF acts = <<>> THEN {} ELSE {Head(acts).link} \cup ActLinks(Tail(acts))
RuleLinks == UNION {ActLinks(scn.rules[i].then) \cup ActLinks(scn.rules[i].else) : i \in DOMAIN scn.rules}
\* links commanded by level controls only (the scope in which C05 names no other writer)
LevelOnly(k) == k \notin RuleLinks /\ \A i \in DOMAIN ctl : ctl[i].link = k => ctl[i].kind = "level"
\* C05.ctl_consistent
CtlConsistent ==
  \A r \in DOMAIN rows : \A i \in DOMAIN ctl :
     LET c == ctl[i] IN
     (c.kind = "level" /\ LevelOnly(c.link) /\ Triggered(c, rows[r].level)) =>
        \/ rows[r].st[c.link] = c.val
        \/ \E j \in DOMAIN ctl : j # i /\ ctl[j].link = c.link /\ HoldsL(ctl[j], rows[r].level) /\ ctl[j].prio >= c.prio /\ ctl[j].val # c.val
\* C05.no_overshoot
NoOvershoot ==
  \A r \in DOMAIN rows : r > 1 => \A i \in DOMAIN ctl :
     LET p == rows[r - 1]  x == rows[r]  c == ctl[i] IN
     (c.kind = "level" /\ LevelOnly(c.link) /\ ~HoldsL(c, p.level) /\ Triggered(c, x.level) /\ p.st[c.link] # c.val /\ x.st[c.link] = c.val)
        => AbsI(x.level - c.thr) <= 2 * AbsI(p.q)
\* C04.partial_step: a time control that changes its link gets a solve exactly at its instant, with the commanded status,
\* when nothing else writes that link
TimeOnly(k) == k \notin RuleLinks /\ Cardinality({i \in DOMAIN ctl : ctl[i].link = k}) = 1
TimeCtlExact ==
  pc = "done" =>
    \A i \in DOMAIN ctl : LET c == ctl[i] IN
       (c.kind = "time" /\ TimeOnly(c.link) /\ c.thr <= scn.steps * scn.H /\ scn.st0[c.link] # c.val)
          => \E r \in DOMAIN rows : rows[r].t = c.thr /\ rows[r].st[c.link] = c.val
                                   /\ \A r2 \in DOMAIN rows : (rows[r2].t < c.thr => rows[r2].st[c.link] = scn.st0[c.link])
                                                              /\ (rows[r2].t >= c.thr => rows[r2].st[c.link] = c.val)
\* C06.tank_step, C16.index_increasing, bounded re-solves, C04: every hydraulic grid time is solved
TankStep == \A r \in DOMAIN rows : r > 1 => rows[r].level = rows[r - 1].level + rows[r - 1].q * (rows[r].t - rows[r - 1].t)
TimesIncrease == \A r \in DOMAIN rows : r > 1 => rows[r].t > rows[r - 1].t
TrialsBounded == trial <= Len(scn.ctl) + 1
GridSolved == pc = "done" => \A k \in 0..scn.steps : \E r \in DOMAIN rows : rows[r].t = k * scn.H
Emit == pc = "done" /\ IOEnv.EMIT = "1" => PrintT(<<"ROWS", ToJson([id |-> scn.id, rows |-> rows])>>)
=============================================================================

-------------------------------- MODULE Equiv --------------------------------
(***************************************************************************)
(* C12 (and C03 reader validation) - equivalence of two projections of a   *)
(* model up to the print precision of the EPANET INP format.  A projection *)
(* is a tagged tree:  [k |-> "n", v |-> number]  [k |-> "s", v |-> string] *)
(* [k |-> "l", v |-> sequence of trees]  [k |-> "d", v |-> record of trees]*)
(* Numbers are compared with the relative / absolute tolerance of the case *)
(* (the INP writers print at least 6 significant digits in file units),    *)
(* everything else exactly.  The verdict names the path of the first       *)
(* difference in every top-level section.                                  *)
(***************************************************************************)
EXTENDS Dec, Sequences, FiniteSets, TLC, Json, IOUtils
VARIABLES i, viol
Cases == JsonDeserialize(IOEnv.CASES)
RECURSIVE TreeClose(_, _, _, _)
TreeClose(x, y, atol, rtol) ==
  /\ x.k = y.k
  /\ CASE x.k = "n" -> Close(Num(x.v), Num(y.v), atol, rtol)
       [] x.k = "s" -> x.v = y.v
       [] x.k = "l" -> Len(x.v) = Len(y.v) /\ \A j \in DOMAIN x.v : TreeClose(x.v[j], y.v[j], atol, rtol)
       [] x.k = "d" -> DOMAIN x.v = DOMAIN y.v /\ \A f \in DOMAIN x.v : TreeClose(x.v[f], y.v[f], atol, rtol)
\* c = [x, y: "d" trees whose top-level fields are the sections, atol, rtol, prefix: clause prefix]
Clauses(c) ==
  LET secs == DOMAIN c.x.v \cup DOMAIN c.y.v IN
  {c.prefix \o "." \o s : s \in {t \in secs : ~(t \in DOMAIN c.x.v /\ t \in DOMAIN c.y.v
                                               /\ TreeClose(c.x.v[t], c.y.v[t], Num(c.atol), Num(c.rtol)))}}
Init == i = 0 /\ viol = {}
Next == i < Len(Cases) /\ i' = i + 1 /\ viol' = Clauses(Cases[i + 1])
Spec == Init /\ [][Next]_<<i, viol>>
Report == viol # {} => PrintT(<<"VIOL", i, viol>>)
Done == TLCGet("stats").diameter - 1 = Len(Cases)
=============================================================================

------------------------------- MODULE TankCtl -------------------------------
(***************************************************************************)
(* C05 / C06 - the level-control logic of run_sim against an ADVERSARIAL   *)
(* hydraulic environment ("bucket family").  One tank, one controlled      *)
(* supply link, one demand; the environment fixes, for every hydraulic     *)
(* interval, the inflow through the link (when it is open) and the         *)
(* outflow, so TLC explores every evolution of the tank level inside the   *)
(* bounds.  Units: time in seconds, level in integer units, flows in level *)
(* units per second (tank area 1).  Levels are even, thresholds odd and    *)
(* flows even, so that a level never equals a threshold and the back-track *)
(* quotient is never an integer (both are outcomes left open).             *)
(*                                                                         *)
(* The algorithm follows wntr/sim/core.py and controls.py:                 *)
(*  - update_tank_heads: level = prevLevel + q * (now - prevT)  (Euler)    *)
(*  - TankLevelCondition.evaluate: '>' is read as '>=', the condition      *)
(*    keeps _last_value; when it turns true the back-track is              *)
(*    floor((level - thr) / q) seconds; _last_value := level at EVERY      *)
(*    evaluation                                                           *)
(*  - presolve: the controls that need to run, by priority and then by     *)
(*    decreasing back-track; groups fire in that order; the first group    *)
(*    whose firing changes something fixes the time (sim_time -= back)     *)
(*  - tank heads are recomputed for the chosen time; solve (environment);  *)
(*    post-solve: the same controls are evaluated on the solved state; a   *)
(*    change forces a re-solve (trial + 1)                                 *)
(*  - accept: prevT, prevLevel := now, level; now += H                     *)
(* Scenarios come from IOEnv.SCN (a JSON batch written by the harness or   *)
(* enumerated by it from the constants of the configuration); the expected *)
(* rows are emitted for replay on a real bucket network.                   *)
(***************************************************************************)
EXTENDS Integers, Sequences, FiniteSets, TLC, Json, IOUtils

VARIABLES scn,        \* [H, steps, ctl: seq of [rel, thr, val, prio], init, st0, env: seq of [fin, dout] per hydraulic interval]
          now, prevT, first,
          level, prevLevel,
          q,          \* tank net inflow of the last solve (tank.demand)
          last,       \* sequence of TankLevelCondition._last_value
          st,         \* status of the supply link (1 open)
          trial, pc,
          rows        \* accepted rows [t, level, st, q]
vars == <<scn, now, prevT, first, level, prevLevel, q, last, st, trial, pc, rows>>
Scenarios == JsonDeserialize(IOEnv.SCN)
ctl == scn.ctl

Holds(c, v) == IF c.rel = ">" THEN v >= c.thr ELSE v <= c.thr       \* '>' / '<' are treated as '>=' / '<='
\* floor((v - thr) / flow): taken when the condition has just turned true, i.e. (v - thr) and flow have the same sign
Back(c, v, flow) == LET d == v - c.thr IN
                    IF flow = 0 \/ d = 0 \/ (d > 0) # (flow > 0) THEN 0 ELSE (IF d > 0 THEN d \div flow ELSE (-d) \div (-flow))
Eval(v) ==
  [run  |-> {i \in DOMAIN ctl : Holds(ctl[i], v)},
   back |-> [i \in DOMAIN ctl |-> IF Holds(ctl[i], v) /\ ~Holds(ctl[i], last[i]) THEN Back(ctl[i], v, q) ELSE 0]]
\* run a set of controls in ascending priority (the highest acts last)
RECURSIVE Fire(_, _)
Fire(S, s) == IF S = {} THEN s
              ELSE LET i == CHOOSE x \in S : \A y \in S : ctl[x].prio < ctl[y].prio \/ (ctl[x].prio = ctl[y].prio /\ x <= y)
                   IN  Fire(S \ {i}, ctl[i].val)

Init == /\ scn \in {Scenarios[k] : k \in DOMAIN Scenarios}
        /\ now = 0 /\ prevT = -1 /\ first = TRUE
        /\ level = scn.init /\ prevLevel = level /\ q = 0
        /\ last = [i \in DOMAIN scn.ctl |-> scn.init]
        /\ st = scn.st0
        /\ trial = 0 /\ pc = "presolve" /\ rows = <<>>

LevelAt(t) == IF first THEN level ELSE prevLevel + q * (t - prevT)

Presolve ==
  /\ pc = "presolve"
  /\ LET v == LevelAt(now)
         e == Eval(v)
         bk(i) == IF first THEN 0 ELSE e.back[i]
         RECURSIVE Pick(_, _)
         Pick(B, s) == IF B = {} THEN [b |-> 0, s |-> s]
                       ELSE LET b == CHOOSE x \in B : \A y \in B : x >= y
                                s2 == Fire({i \in e.run : bk(i) = b}, s)
                            IN  IF s2 # st THEN [b |-> b, s |-> s2] ELSE Pick(B \ {b}, s2)
         p == Pick({bk(i) : i \in e.run}, st)
         t == now - p.b
     IN  /\ now' = t
         /\ level' = LevelAt(t)                              \* update_tank_heads for the chosen time
         /\ last' = [i \in DOMAIN ctl |-> v]                 \* every evaluated condition remembers the value it saw
         /\ st' = p.s
  /\ trial' = 0 /\ pc' = "solve"
  /\ UNCHANGED <<scn, prevT, first, prevLevel, q, rows>>

\* the environment of this hydraulic interval
Solve == /\ pc = "solve"
         /\ LET e == scn.env[(now \div scn.H) + 1] IN q' = (IF st = 1 THEN e.fin ELSE 0) - e.dout
         /\ pc' = "postsolve"
         /\ UNCHANGED <<scn, now, prevT, first, level, prevLevel, last, st, trial, rows>>

PostSolve ==
  /\ pc = "postsolve"
  /\ LET e == Eval(level)
         s2 == Fire(e.run, st)
     IN  /\ last' = [i \in DOMAIN ctl |-> level]
         /\ IF s2 # st
            THEN /\ st' = s2 /\ trial' = trial + 1 /\ pc' = "solve"
                 /\ UNCHANGED <<now, prevT, first, level, prevLevel, q, rows>>
            ELSE /\ rows' = Append(rows, [t |-> now, level |-> level, st |-> st, q |-> q])
                 /\ prevT' = now /\ prevLevel' = level /\ first' = FALSE
                 /\ now' = ((now + scn.H) \div scn.H) * scn.H
                 /\ pc' = IF now' > scn.steps * scn.H THEN "done" ELSE "presolve"
                 /\ UNCHANGED <<st, trial, level, q>>
  /\ UNCHANGED scn

Next == Presolve \/ Solve \/ PostSolve
Spec == Init /\ [][Next]_vars

\* ------------------------------------------------------------------ properties
Triggered(c, v) == IF c.rel = ">" THEN v > c.thr ELSE v < c.thr
AbsI(x) == IF x < 0 THEN -x ELSE x
\* C05.ctl_consistent
CtlConsistent ==
  \A k \in DOMAIN rows : \A i \in DOMAIN ctl :
     LET r == rows[k]  c == ctl[i] IN
     Triggered(c, r.level) =>
        \/ r.st = c.val
        \/ \E j \in DOMAIN ctl : j # i /\ Holds(ctl[j], r.level) /\ ctl[j].prio >= c.prio /\ ctl[j].val # c.val
\* C05.no_overshoot: a threshold whose crossing changes the link is met within two seconds of flow
NoOvershoot ==
  \A k \in DOMAIN rows : k > 1 => \A i \in DOMAIN ctl :
     LET p == rows[k - 1]  r == rows[k]  c == ctl[i] IN
     (~Holds(c, p.level) /\ Triggered(c, r.level) /\ p.st # c.val /\ r.st = c.val)
        => AbsI(r.level - c.thr) <= 2 * AbsI(p.q)
\* C06.tank_step, C16.index_increasing, bounded re-solves
TankStep == \A k \in DOMAIN rows : k > 1 => rows[k].level = rows[k - 1].level + rows[k - 1].q * (rows[k].t - rows[k - 1].t)
TimesIncrease == \A k \in DOMAIN rows : k > 1 => rows[k].t > rows[k - 1].t
TrialsBounded == trial <= Len(scn.ctl) + 1
Emit == pc = "done" /\ IOEnv.EMIT = "1" => PrintT(<<"ROWS", ToJson([id |-> scn.id, rows |-> rows])>>)
=============================================================================

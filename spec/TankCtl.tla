------------------------------- MODULE TankCtl -------------------------------
(***************************************************************************)
(* C05 / C06 - the level-control logic of run_sim against an ADVERSARIAL   *)
(* hydraulic environment.  One tank, one controlled supply link, a demand; *)
(* the environment chooses the inflow through the link (when it is open)   *)
(* and the outflow at every solve, so TLC explores every evolution of the  *)
(* tank level inside the bounds.  Abstract units: time in ticks (H ticks   *)
(* per hydraulic step), level in integer units, flows in level units per   *)
(* tick, tank area 1.                                                      *)
(*                                                                         *)
(* The algorithm follows wntr/sim/core.py and controls.py:                 *)
(*  - update_tank_heads: level = prevLevel + q * (now - prevT)  (Euler)    *)
(*  - TankLevelCondition.evaluate: '>' is read as '>=', the condition      *)
(*    keeps _last_value; when it turns true the back-track is              *)
(*    floor((level - thr) / q) ticks; _last_value := level at EVERY        *)
(*    evaluation                                                           *)
(*  - presolve: controls that need to run, sorted by priority and then by  *)
(*    decreasing back-track; the group with the largest back-track fires;  *)
(*    if something changed, sim_time -= back-track and the search stops    *)
(*  - tank heads are recomputed for the chosen time; solve (environment);  *)
(*    post-solve: the same controls are evaluated again on the solved      *)
(*    state; a change forces a re-solve (trial + 1)                        *)
(*  - accept: prevT, prevLevel := now, level; now += H                     *)
(* Tank min / max limits are the two internal controls of                  *)
(* _get_all_tank_controls on the supply / demand side (C06).               *)
(***************************************************************************)
EXTENDS Integers, Sequences, FiniteSets, TLC

CONSTANTS H,          \* ticks per hydraulic step
          Steps,      \* number of hydraulic steps
          Thr,        \* candidate thresholds
          Init0,      \* candidate initial levels
          MaxL, MinL  \* tank limits (C06)

\* a control: [rel |-> ">" | "<", thr, val (0 close / 1 open the supply link), prio]
CtlSets == { <<a, b>> : a \in [rel : {"<"}, thr : Thr, val : {1}, prio : {3}],
                         b \in [rel : {">"}, thr : Thr, val : {0}, prio : {1, 3}] }      \* hysteresis pairs
           \cup { <<a, b, c>> : a \in [rel : {"<"}, thr : Thr, val : {1}, prio : {3}],
                               b \in [rel : {">"}, thr : Thr, val : {0}, prio : {3}],
                               c \in [rel : {">"}, thr : Thr, val : {1}, prio : {1}] }     \* a third threshold above

VARIABLES ctl,        \* the controls (constant of the behaviour)
          now, prevT, first,
          level, prevLevel,
          q,          \* tank net inflow of the last solve (tank.demand)
          last,       \* sequence of TankLevelCondition._last_value
          st,         \* status of the supply link as commanded by controls (1 open)
          lim,        \* internal statuses: [sup |-> supply closed by the max-level rule, dem |-> demand side closed by the min-level rule]
          trial, pc,
          rows        \* accepted rows [t, level, st, q]
vars == <<ctl, now, prevT, first, level, prevLevel, q, last, st, lim, trial, pc, rows>>

Holds(c, v) == IF c.rel = ">" THEN v >= c.thr ELSE v <= c.thr       \* '>' / '<' are treated as '>=' / '<='
\* floor division for the back-track (both operands have the same sign when the condition has just turned true)
Back(c, v, flow) == IF flow = 0 THEN 0 ELSE LET d == v - c.thr IN IF (d >= 0) = (flow > 0) THEN (IF d >= 0 THEN d \div flow ELSE (-d) \div (-flow)) ELSE 0

\* evaluate all conditions on level v: returns [run |-> set of indices to run, back |-> function index -> back-track]
Eval(v) ==
  [run  |-> {i \in DOMAIN ctl : Holds(ctl[i], v)},
   back |-> [i \in DOMAIN ctl |-> IF Holds(ctl[i], v) /\ ~Holds(ctl[i], last[i]) THEN Back(ctl[i], v, q) ELSE 0]]

\* run a set of controls in ascending priority (the highest acts last); returns the status
RECURSIVE Fire(_, _)
Fire(S, s) == IF S = {} THEN s
              ELSE LET i == CHOOSE x \in S : \A y \in S : ctl[x].prio < ctl[y].prio \/ (ctl[x].prio = ctl[y].prio /\ x <= y)
                   IN  Fire(S \ {i}, ctl[i].val)

Init == /\ ctl \in CtlSets
        /\ \A i \in DOMAIN ctl : \A j \in DOMAIN ctl : (ctl[i].rel = "<" /\ ctl[j].rel = ">") => ctl[i].thr < ctl[j].thr
        /\ now = 0 /\ prevT = -1 /\ first = TRUE
        /\ level \in Init0 /\ prevLevel = level /\ q = 0
        /\ last = [i \in DOMAIN ctl |-> level]
        /\ st \in {0, 1} /\ lim = [sup |-> FALSE, dem |-> FALSE]
        /\ trial = 0 /\ pc = "presolve" /\ rows = <<>>

LevelAt(t) == IF first THEN level ELSE prevLevel + q * (t - prevT)

\* update_tank_heads, presolve check, choice of the next time, update_tank_heads again
Presolve ==
  /\ pc = "presolve"
  /\ LET v == LevelAt(now)
         e == Eval(v)
         \* internal tank rules (pre- and post-solve): close the supply at max level, the demand side at min level
         maxHit == v >= MaxL  minHit == v <= MinL
         backs == {IF first THEN 0 ELSE e.back[i] : i \in e.run}
         \* groups in decreasing back-track order: the first group whose firing changes something decides the time
         RECURSIVE Pick(_, _)
         Pick(B, s) == IF B = {} THEN [b |-> 0, s |-> s]
                       ELSE LET b == CHOOSE x \in B : \A y \in B : x >= y
                                g == {i \in e.run : (IF first THEN 0 ELSE e.back[i]) = b}
                                s2 == Fire(g, s)
                            IN  IF s2 # st THEN [b |-> b, s |-> s2] ELSE Pick(B \ {b}, s2)
         p == Pick(backs, st)
         \* the tank-limit rules back-track too (ValueCondition on the tank head is a TankLevelCondition)
         bmax == IF maxHit /\ ~lim.sup /\ q > 0 /\ ~first THEN (v - MaxL) \div q ELSE 0
         bmin == IF minHit /\ ~lim.dem /\ q < 0 /\ ~first THEN (MinL - v) \div (-q) ELSE 0
         b == IF bmax > p.b THEN (IF bmin > bmax THEN bmin ELSE bmax) ELSE IF bmin > p.b THEN bmin ELSE p.b
         t == now - b
         v2 == LevelAt(t)
     IN  /\ now' = t
         /\ level' = v2
         /\ last' = [i \in DOMAIN ctl |-> v]                 \* every evaluated condition remembers the value it saw
         \* only the groups up to the chosen back-track have fired
         /\ st' = IF b = p.b THEN p.s ELSE st
         /\ lim' = [sup |-> lim.sup \/ (b = bmax /\ bmax > 0) \/ (b = 0 /\ maxHit),
                    dem |-> lim.dem \/ (b = bmin /\ bmin > 0) \/ (b = 0 /\ minHit)]
  /\ trial' = 0 /\ pc' = "solve"
  /\ UNCHANGED <<ctl, prevT, first, prevLevel, q, rows>>

\* the environment: any inflow through the open supply link, any outflow through the open demand side
Solve == /\ pc = "solve"
         /\ \E fin \in {1, 2}, dout \in {0, 1, 2} :
              q' = (IF st = 1 /\ ~lim.sup THEN fin ELSE 0) - (IF lim.dem THEN 0 ELSE dout)
         /\ pc' = "postsolve"
         /\ UNCHANGED <<ctl, now, prevT, first, level, prevLevel, last, st, lim, trial, rows>>

\* post-solve: the same conditions on the solved state; tank-limit rules re-open when the level has moved away
PostSolve ==
  /\ pc = "postsolve"
  /\ LET e == Eval(level)
         s2 == Fire(e.run, st)
         lim2 == [sup |-> level >= MaxL, dem |-> level <= MinL]
     IN  /\ last' = [i \in DOMAIN ctl |-> level]
         /\ IF s2 # st \/ lim2 # lim
            THEN /\ st' = s2 /\ lim' = lim2 /\ trial' = trial + 1 /\ pc' = "solve"
                 /\ UNCHANGED <<now, prevT, first, level, prevLevel, q, rows>>
            ELSE /\ rows' = Append(rows, [t |-> now, level |-> level, st |-> st, q |-> q, lim |-> lim])
                 /\ prevT' = now /\ prevLevel' = level /\ first' = FALSE
                 /\ now' = ((now + H) \div H) * H
                 /\ pc' = IF now' > Steps * H THEN "done" ELSE "presolve"
                 /\ UNCHANGED <<st, lim, trial, level, q>>
  /\ UNCHANGED ctl

Next == Presolve \/ Solve \/ PostSolve
Spec == Init /\ [][Next]_vars

\* ------------------------------------------------------------------ properties
Triggered(c, v) == IF c.rel = ">" THEN v > c.thr ELSE v < c.thr          \* strictly: the boundary itself is open
\* C05.ctl_consistent: on every accepted row a triggered control's link has the commanded status unless a
\* conflicting triggered control of equal or higher priority exists (or the tank limit rule holds the link closed)
CtlConsistent ==
  \A k \in DOMAIN rows : \A i \in DOMAIN ctl :
     LET r == rows[k]  c == ctl[i] IN
     Triggered(c, r.level) =>
        \/ r.st = c.val
        \/ \E j \in DOMAIN ctl : j # i /\ Holds(ctl[j], r.level) /\ ctl[j].prio >= c.prio /\ ctl[j].val # c.val
\* C05.no_overshoot: a threshold whose crossing changes the link is met within two ticks of flow
NoOvershoot ==
  \A k \in DOMAIN rows : k > 1 => \A i \in DOMAIN ctl :
     LET p == rows[k - 1]  r == rows[k]  c == ctl[i] IN
     (~Holds(c, p.level) /\ Triggered(c, r.level) /\ p.st # c.val /\ r.st = c.val)
        => (IF c.rel = ">" THEN r.level - c.thr ELSE c.thr - r.level) <= 2 * (IF p.q < 0 THEN -p.q ELSE p.q)
\* C06.tank_step and C06.tank_limits
TankStep == \A k \in DOMAIN rows : k > 1 => rows[k].level = rows[k - 1].level + rows[k - 1].q * (rows[k].t - rows[k - 1].t)
TankLimits == \A k \in DOMAIN rows : k > 1 =>
                 LET a == IF rows[k - 1].q < 0 THEN -rows[k - 1].q ELSE rows[k - 1].q IN
                 rows[k].level <= MaxL + 2 * a /\ rows[k].level >= MinL - 2 * a
NoFillAtMax == \A k \in DOMAIN rows : rows[k].level >= MaxL => rows[k].q <= 0
NoDrainAtMin == \A k \in DOMAIN rows : rows[k].level <= MinL => rows[k].q >= 0
TimesIncrease == \A k \in DOMAIN rows : k > 1 => rows[k].t > rows[k - 1].t
TrialsBounded == trial <= 3
=============================================================================

------------------------------- MODULE WntrSim -------------------------------
(***************************************************************************)
(* Algorithmic model of WNTRSimulator.run_sim (wntr/sim/core.py) - one     *)
(* action per block of the loop, same variables, same order.               *)
(*                                                                         *)
(* This module is the TIME FAMILY instantiation: scenarios whose controls  *)
(* and rules are conditioned on time only, so the status timeline does not *)
(* depend on the hydraulic solution (Solve is a no-op of the environment). *)
(* TLC checks that the algorithm refines the declarative semantics of      *)
(* Controls.tla on every scenario (invariant Refines), and emits the       *)
(* expected observable timeline for replay against the real simulator.     *)
(*                                                                         *)
(* Variables mirror the code:                                              *)
(*   now, prevT   wn.sim_time, wn._prev_sim_time                           *)
(*   first        first_step                                               *)
(*   ri           WNTRSimulator._rule_iter                                 *)
(*   st           link._user_status per link                               *)
(*   pc           position in the loop                                     *)
(*   rows         accepted solves <<[t, st]>> (what report_timestep='ALL'  *)
(*                shows; the report grid is a filter on it)                *)
(***************************************************************************)
EXTENDS Controls, Json, IOUtils

VARIABLES scn, aux, now, prevT, first, ri, st, pc, rows, pauses
vars == <<scn, aux, now, prevT, first, ri, st, pc, rows, pauses>>
\* aux = [tl, rorder]: the declarative timeline and the rule order of the scenario, computed once (derived
\* constants of the behaviour, not state of the algorithm)

Scenarios == JsonDeserialize(IOEnv.SCN)     \* scenario batch written by the harness or by Gen*.tla

\* ------------------------------------------------------------------ condition.evaluate() as run_sim sees it
\* a simple time control is checked with (prev, cur) = (last accepted solve, next hydraulic time):
\* it fires when one of its instants lies in (prev, cur]; backtrack = cur - that instant
LastInstant(s, c, cur) ==          \* latest firing instant <= cur, or -1
  IF c.kind = "sim"
  THEN IF cur < c.thr THEN -1 ELSE IF c.rep = 0 THEN c.thr ELSE cur - ((cur - c.thr) % c.rep)
  ELSE LET i == cur - ((cur + s.Start - c.thr) % Day) IN IF i < 0 \/ (i + s.Start) \div Day < Fd(c) THEN -1 ELSE i
CtlCheck(s, c, prev, cur) == LET i == LastInstant(s, c, cur) IN [fire |-> i > prev, back |-> cur - i]

\* rule conditions are evaluated at a rule instant e = sim_time with prev = last accepted solve
AtomEval(s, a, prev, e) ==
  LET x == IF a.t = "sim" THEN e ELSE (e + s.Start) % Day IN
  CASE a.rel = "="  -> LastInstant(s, [kind |-> a.t, thr |-> a.thr, rep |-> 0], e) > prev
    [] a.rel = ">=" -> x >= a.thr
    [] a.rel = ">"  -> x > a.thr
    [] a.rel = "<=" -> x <= a.thr
    [] a.rel = "<"  -> x < a.thr
RECURSIVE CondEval(_, _, _, _)
CondEval(s, c, prev, e) == CASE c.op = "atom" -> AtomEval(s, c, prev, e)
                             [] c.op = "and"  -> CondEval(s, c.a, prev, e) /\ CondEval(s, c.b, prev, e)
                             [] c.op = "or"   -> CondEval(s, c.a, prev, e) \/ CondEval(s, c.b, prev, e)

\* self._rules.check(); sort by priority; run
RECURSIVE RunRules(_, _, _, _, _)
RunRules(s, stt, prev, e, order) ==
  IF order = <<>> THEN stt
  ELSE LET r == s.rules[Head(order)] IN
       RunRules(s, ApplyActs(stt, IF CondEval(s, r.cond, prev, e) THEN r.then ELSE r.else), prev, e, Tail(order))
Rules(s, stt, prev, e) == RunRules(s, stt, prev, e, aux.rorder)

\* presolve_controls.check(); sort by priority; stable sort by decreasing backtrack; zero backtrack on first step
ToRun(s, prev, cur, isFirst) ==
  LET F == {i \in DOMAIN s.ctl : CtlCheck(s, s.ctl[i], prev, cur).fire}
      b(i) == IF isFirst THEN 0 ELSE CtlCheck(s, s.ctl[i], prev, cur).back
      b0(i) == CtlCheck(s, s.ctl[i], prev, cur).back
  IN  [k \in 1..Cardinality(F) |->
         LET i == SetToSortSeq(F, LAMBDA x, y : b0(x) > b0(y) \/ (b0(x) = b0(y) /\ (s.ctl[x].prio < s.ctl[y].prio
                                                    \/ (s.ctl[x].prio = s.ctl[y].prio /\ x < y))))[k]
         IN  <<i, b(i)>>]

\* fire todo[cnt] and every following control with the same backtrack
RECURSIVE FireGroup(_, _, _, _, _)
FireGroup(s, stt, todo, cnt, back) ==
  IF cnt <= Len(todo) /\ todo[cnt][2] = back
  THEN LET c == s.ctl[todo[cnt][1]] IN FireGroup(s, [stt EXCEPT ![c.link] = c.val], todo, cnt + 1, back)
  ELSE [st |-> stt, cnt |-> cnt]

\* _compute_next_timestep_and_run_presolve_controls_and_rules: the while loop.
\* x = [now, ri, st, cnt]; ref = statuses at the 'presolve' reference point; returns x at loop exit
RECURSIVE Loop(_, _, _, _, _)
Loop(s, x, todo, ref, prev) ==
  LET ruleT == x.ri * s.Rs
      hasRules == s.rules # <<>> IN
  IF ~(x.cnt <= Len(todo) \/ (hasRules /\ ruleT <= x.now)) THEN x
  ELSE IF x.cnt > Len(todo) THEN
         \* only rules left before the next hydraulic step
         LET n == Rules(s, x.st, prev, ruleT) IN
         IF n # ref THEN [x EXCEPT !.now = ruleT, !.ri = @ + 1, !.st = n]
         ELSE Loop(s, [x EXCEPT !.ri = @ + 1, !.st = n], todo, ref, prev)
  ELSE LET back == todo[x.cnt][2]  at == x.now - back IN
       IF ~hasRules \/ at < ruleT THEN
         LET g == FireGroup(s, x.st, todo, x.cnt, back) IN
         IF g.st # ref THEN [x EXCEPT !.now = at, !.st = g.st, !.cnt = g.cnt]
         ELSE Loop(s, [x EXCEPT !.st = g.st, !.cnt = g.cnt], todo, ref, prev)
       ELSE IF at = ruleT THEN
         \* rules first, then the controls of this instant
         LET n == Rules(s, x.st, prev, ruleT)
             g == FireGroup(s, n, todo, x.cnt, back) IN
         IF g.st # ref THEN [x EXCEPT !.now = at, !.ri = @ + 1, !.st = g.st, !.cnt = g.cnt]
         ELSE Loop(s, [x EXCEPT !.ri = @ + 1, !.st = g.st, !.cnt = g.cnt], todo, ref, prev)
       ELSE
         LET n == Rules(s, x.st, prev, ruleT) IN
         IF n # ref THEN [x EXCEPT !.now = ruleT, !.ri = @ + 1, !.st = n]
         ELSE Loop(s, [x EXCEPT !.ri = @ + 1, !.st = n], todo, ref, prev)

\* ------------------------------------------------------------------ actions
Init == /\ scn \in Range(Scenarios)
        /\ aux = [tl |-> Timeline(scn), rorder |-> ByPrio(scn.rules, DOMAIN scn.rules)]
        /\ now = 0 /\ prevT = -1 /\ first = TRUE
        /\ ri = 1                      \* rules are not evaluated before the first hydraulic solution
        /\ st = scn.init /\ pc = "presolve" /\ rows = <<>>
        /\ pauses = scn.pauses            \* durations at which run_sim returns and is called again (C10)

Presolve == /\ pc = "presolve"
            /\ LET x == Loop(scn, [now |-> now, ri |-> ri, st |-> st, cnt |-> 1],
                             ToRun(scn, prevT, now, first), st, prevT)
               IN  now' = x.now /\ ri' = x.ri /\ st' = x.st
            /\ pc' = "solve"
            /\ UNCHANGED <<scn, aux, prevT, first, rows, pauses>>

\* Solve + Store + PostSolve are environment no-ops in the time family; Accept saves the row and advances
\* environment: the nonlinear solve of this step fails (C16).  run_sim stops at once: nothing is saved for the step,
\* RuntimeError when convergence_error, otherwise a warning and error_code (pc = "failed"); rows stay as they are.
SolveFails == /\ pc = "solve" /\ scn.failAt = Len(rows) + 1
              /\ pc' = IF scn.convErr THEN "raised" ELSE "failed"
              /\ UNCHANGED <<scn, aux, now, prevT, first, ri, st, rows, pauses>>

Accept == /\ pc = "solve" /\ scn.failAt # Len(rows) + 1
          /\ rows' = Append(rows, [t |-> now, st |-> st])
          /\ prevT' = now /\ first' = FALSE
          /\ LET n == now + scn.H IN now' = n - (n % scn.H)
          /\ pc' = IF now' > scn.Dur THEN "done"
                   ELSE IF pauses # <<>> /\ now' > Head(pauses) THEN "paused" ELSE "presolve"
          /\ UNCHANGED <<scn, aux, ri, st, pauses>>

\* run_sim returned (duration reached); the model is possibly pickled and a NEW simulator continues with a longer
\* duration.  Everything that persists lives in the model (now, prevT, st); the simulator's own bookkeeping is
\* re-initialised: first_step := (sim_time = 0), and the rule index resumes after the last accepted solve.
NewRun == /\ pc = "paused"
          /\ pauses' = Tail(pauses)
          /\ first' = (now = 0)
          /\ ri' = (prevT \div scn.Rs) + 1
          /\ pc' = "presolve"
          /\ UNCHANGED <<scn, aux, now, prevT, st, rows>>

Next == Presolve \/ Accept \/ NewRun \/ SolveFails
Spec == Init /\ [][Next]_vars
FairSpec == Spec /\ WF_vars(Next)

\* ------------------------------------------------------------------ properties (C04)
Times == {rows[i].t : i \in DOMAIN rows}
Increasing == \A i \in DOMAIN rows : i > 1 => rows[i].t > rows[i - 1].t          \* C16.index_increasing
Refines ==                                                                       \* C04.timeline / partial_step
  pc = "done" =>
    LET tl == aux.tl IN
    /\ Required(scn, tl) \subseteq Times
    /\ Times \subseteq Allowed(scn, tl)
    /\ \A i \in DOMAIN rows : rows[i].st = StatusAt(scn, tl, rows[i].t)
\* C16: every run terminates; a failed solve stops the run, and what was reported before is the fault-free prefix
Terminates == <>(pc \in {"done", "failed", "raised"})
FailStop == pc \in {"failed", "raised"} =>
              LET tl == aux.tl IN
              /\ Len(rows) = scn.failAt - 1
              /\ \A i \in DOMAIN rows : rows[i].st = StatusAt(scn, tl, rows[i].t) /\ rows[i].t < now
              /\ {t \in Required(scn, tl) : t < now} \subseteq Times
NeverBackwards == [][now' > prevT']_vars
\* C11.def_unchanged at the level of the algorithm: no action of the simulator writes the model definition
DefinitionUnchanged == [][scn' = scn]_vars
\* expected observable timeline for the replay harness
Emit == pc \in {"done", "failed", "raised"} /\ IOEnv.EMIT = "1" =>
          LET tl == aux.tl IN
          PrintT(<<"CASE", ToJson([id |-> scn.id, req |-> SortInts(Required(scn, tl)),
                                   alw |-> SortInts(Allowed(scn, tl)),
                                   tl |-> [i \in DOMAIN tl |-> [t |-> tl[i].t, st |-> tl[i].st]],
                                   ok |-> Refines /\ Increasing, det |-> Determinate(scn),
                                   mt |-> [i \in DOMAIN rows |-> rows[i].t]])>>)
=============================================================================

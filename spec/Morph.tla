-------------------------------- MODULE Morph --------------------------------
(***************************************************************************)
(* C19 - contracts of split_pipe / break_pipe and skeletonize, as          *)
(* predicates over recorded (before, parameters, after) projections of the *)
(* model.  Geometry is exact: pipe polylines are axis-parallel with        *)
(* integer coordinates, so segment lengths are integers and the position   *)
(* of the new junction is a rational that the spec computes itself.        *)
(*                                                                         *)
(* split case c:  kind "split"|"break", f = <<num, den>> (fraction),       *)
(*   at_end, pipe (name of the pipe), pre / post: records                  *)
(*   pre.pipe  = [len, diam, rough, minor, cv, status, a, b, verts]        *)
(*   pre.ends  = [a |-> [type, elev, xy], b |-> ...]                       *)
(*   pre.others / post.others : canonical strings of every other element   *)
(*   post.old, post.new = pipes after the operation, post.j = new junctions*)
(*   input_same : the input model's dictionary is unchanged (return_copy)  *)
(* skel case c:  kind "skel", keep (names that must be retained),          *)
(*   post_nodes, post_links, map (record retained node -> seq of original  *)
(*   nodes), orig_nodes, dem_pre / dem_post (seq of total demand per time) *)
(***************************************************************************)
EXTENDS Dec, Sequences, FiniteSets, TLC, Json, IOUtils
VARIABLES i, viol
Cases == JsonDeserialize(IOEnv.CASES)
Tol == Sci(1, -9)

F(c) == <<FromInt(c.f[1]), FromInt(c.f[2])>>
\* polyline start, vertices, end as integer points; segment lengths are |dx| + |dy| (axis parallel)
Poly(c) == <<c.pre.ends.a.xy>> \o c.pre.pipe.verts \o <<c.pre.ends.b.xy>>
AbsI(x) == IF x < 0 THEN -x ELSE x
SegLen(p, k) == AbsI(p[k + 1][1] - p[k][1]) + AbsI(p[k + 1][2] - p[k][2])
RECURSIVE Before(_, _)
Before(p, k) == IF k = 1 THEN 0 ELSE Before(p, k - 1) + SegLen(p, k - 1)     \* polyline length before point k
Total(p) == Before(p, Len(p))
\* the point at fraction f of the polyline length, as a pair of rationals
PointAt(p, f) ==
  LET tot == Total(p)
      \* split length s = f * tot; segment k contains it when Before(k) < s <= Before(k+1) (or s = 0: the start)
      target == RMul(f, RInt(tot))
      ks == {k \in 1..(Len(p) - 1) : RCmp(RInt(Before(p, k)), target) < 0 /\ RCmp(target, RInt(Before(p, k + 1))) <= 0}
  IN  IF ks = {} THEN <<RInt(p[1][1]), RInt(p[1][2])>>
      ELSE LET k == CHOOSE x \in ks : TRUE
               t == RDiv(RSub(target, RInt(Before(p, k))), RInt(SegLen(p, k)))        \* position inside the segment
           IN  <<RAdd(RInt(p[k][1]), RMul(t, RInt(p[k + 1][1] - p[k][1]))),
                 RAdd(RInt(p[k][2]), RMul(t, RInt(p[k + 1][2] - p[k][2])))>>
\* elevation of the new junction: the other end's elevation next to a reservoir, linear interpolation otherwise
Elev(c) ==
  LET a == c.pre.ends.a  b == c.pre.ends.b IN
  IF a.type = "R" THEN RDec(Num(b.elev)) ELSE IF b.type = "R" THEN RDec(Num(a.elev))
  ELSE RAdd(RDec(Num(a.elev)), RMul(F(c), RDec(Sub(Num(b.elev), Num(a.elev)))))

SplitClauses(c) ==
  LET pre == c.pre.pipe  old == c.post.old  new == c.post.new
      f == F(c)  onemf == RSub(RInt(1), f)
      PL == RDec(Num(pre.len))
      lenOld == IF c.at_end THEN RMul(f, PL) ELSE RMul(onemf, PL)
      lenNew == IF c.at_end THEN RMul(onemf, PL) ELSE RMul(f, PL)
      bad(n, ok) == IF ok THEN {} ELSE {n}
      pt == PointAt(Poly(c), f)
      nj == Len(c.post.j) IN
  bad("C19.length_total", /\ RClose(Num(old.len), lenOld, Tol, Tol) /\ RClose(Num(new.len), lenNew, Tol, Tol)
                          /\ Close(Add(Num(old.len), Num(new.len)), Num(pre.len), Tol, Tol))
  \cup bad("C19.others_unchanged", c.pre.others = c.post.others)
  \cup bad("C19.junction_place",
           /\ nj = (IF c.kind = "split" THEN 1 ELSE 2)
           /\ \A k \in 1..nj : /\ RClose(Num(c.post.j[k].elev), Elev(c), Tol, Tol)
                               /\ RClose(Num(c.post.j[k].x), pt[1], Tol, Tol) /\ RClose(Num(c.post.j[k].y), pt[2], Tol, Tol)
                               /\ c.post.j[k].ndem = 0)
  \cup bad("C19.connectivity",
           \* the original pipe keeps its far end, the new pipe takes the other side; a break leaves the halves unconnected
           LET j1 == c.post.j[1].name  j2 == c.post.j[nj].name IN
           IF c.at_end THEN old.a = c.pre.pipe.a /\ old.b = j1 /\ new.a = j2 /\ new.b = c.pre.pipe.b
           ELSE new.a = c.pre.pipe.a /\ new.b = j2 /\ old.a = j1 /\ old.b = c.pre.pipe.b)
  \cup bad("C19.attributes", /\ Eq(Num(old.diam), Num(pre.diam)) /\ Eq(Num(new.diam), Num(pre.diam))
                             /\ Eq(Num(old.rough), Num(pre.rough)) /\ Eq(Num(new.rough), Num(pre.rough))
                             /\ old.status = pre.status /\ new.status = pre.status /\ old.cv = pre.cv)
  \cup bad("C19.no_cv", ~new.cv)
  \cup bad("C19.copy_untouched", c.input_same)
  \cup bad("C19.vertices", \* every original vertex ends up on exactly one of the two pipes, in order
           (IF c.at_end THEN old.verts \o new.verts ELSE new.verts \o old.verts) = pre.verts)

SkelClauses(c) ==
  LET bad(n, ok) == IF ok THEN {} ELSE {n}
      post == {c.post_nodes[k] : k \in DOMAIN c.post_nodes} \cup {c.post_links[k] : k \in DOMAIN c.post_links}
      orig == {c.orig_nodes[k] : k \in DOMAIN c.orig_nodes}
      keys == {c.post_nodes[k] : k \in DOMAIN c.post_nodes}          \* the retained nodes
      Members(k) == {c.map[k][j] : j \in DOMAIN c.map[k]} IN
  bad("C19.skel_keep", \A k \in DOMAIN c.keep : c.keep[k] \in post)
  \cup bad("C19.skel_demand", /\ Len(c.dem_pre) = Len(c.dem_post)
                              /\ \A k \in DOMAIN c.dem_pre : Close(Num(c.dem_pre[k]), Num(c.dem_post[k]), Sci(1, -12), Tol))
  \cup bad("C19.skel_map", /\ UNION {Members(k) : k \in keys} = orig
                           /\ \A k1, k2 \in keys : k1 = k2 \/ Members(k1) \cap Members(k2) = {}
                           /\ \A k \in keys : Cardinality(Members(k)) = Len(c.map[k])       \* no node listed twice
                           /\ keys \subseteq DOMAIN c.map
                           /\ \A k \in DOMAIN c.map \ keys : c.map[k] = <<>>        \* removed nodes own nothing
                           /\ \A k \in keys : k \in Members(k))

Clauses(c) == IF c.kind = "skel" THEN SkelClauses(c) ELSE SplitClauses(c)
Init == i = 0 /\ viol = {}
Next == i < Len(Cases) /\ i' = i + 1 /\ viol' = Clauses(Cases[i + 1])
Spec == Init /\ [][Next]_<<i, viol>>
Report == viol # {} => PrintT(<<"VIOL", i, viol>>)
Done == TLCGet("stats").diameter - 1 = Len(Cases)
=============================================================================

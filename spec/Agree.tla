-------------------------------- MODULE Agree --------------------------------
(***************************************************************************)
(* Two recorded result tables must be the same observable behaviour.       *)
(* Used for C10 (pause / pickle / restart: the concatenated rows of the    *)
(* parts vs the uninterrupted run), C11 (reset and rerun; equal models)    *)
(* and C19 (splitting a pipe leaves the hydraulics of the rest unchanged). *)
(* A case is [clause, a, b, atol, rtol, keys] where a and b are sequences  *)
(* of rows [t, num: record name -> number, st: record name -> int]; only   *)
(* the names listed in keys are compared.                                  *)
(***************************************************************************)
EXTENDS Dec, Sequences, FiniteSets, TLC, Json, IOUtils
VARIABLES i, viol
Cases == JsonDeserialize(IOEnv.CASES)
RowsAgree(c, x, y) ==
  /\ x.t = y.t
  /\ \A k \in DOMAIN c.numkeys : Close(Num(x.num[c.numkeys[k]]), Num(y.num[c.numkeys[k]]), Num(c.atol), Num(c.rtol))
  /\ \A k \in DOMAIN c.stkeys :
        LET n == c.stkeys[k] IN
        \/ x.st[n] = y.st[n]
        \* a status decision taken within the flow tolerance of its threshold is an open outcome: tolerated only
        \* when the link carries (almost) no flow in both runs
        \/ (c.qsmall.m # <<>> /\ Leq(Abs(Num(x.num["q_" \o n])), Num(c.qsmall)) /\ Leq(Abs(Num(y.num["q_" \o n])), Num(c.qsmall)))
Clauses(c) ==
  (IF Len(c.a) = Len(c.b) /\ \A k \in DOMAIN c.a : RowsAgree(c, c.a[k], c.b[k]) THEN {} ELSE {c.clause})
  \cup (IF \A k \in DOMAIN c.b : k = 1 \/ c.b[k].t > c.b[k - 1].t THEN {} ELSE {c.clause2})       \* never revisits a time
  \cup (IF c.boundary = <<>> \/ \A k \in DOMAIN c.boundary :                                          \* restart points
             \E j \in DOMAIN c.b : c.b[j].t = c.boundary[k] THEN {} ELSE {c.clause3})
Init == i = 0 /\ viol = {}
Next == i < Len(Cases) /\ i' = i + 1 /\ viol' = Clauses(Cases[i + 1])
Spec == Init /\ [][Next]_<<i, viol>>
Report == viol # {} => PrintT(<<"VIOL", i, viol>>)
Done == TLCGet("stats").diameter - 1 = Len(Cases)
=============================================================================

------------------------------ MODULE Isolation ------------------------------
(***************************************************************************)
(* C09 - the incremental open/closed adjacency that WNTRSimulator keeps    *)
(* between solves (core.py: _initialize_internal_graph,                    *)
(* _update_internal_graph) against declarative reachability.               *)
(*                                                                         *)
(* The adjacency has ONE entry per unordered node pair, shared by all      *)
(* parallel links of that pair.  A status change writes 0/1 into the entry *)
(* of the changed link; afterwards every pair with several links is        *)
(* recomputed as "some link of the pair is not closed".  TLC explores      *)
(* every multigraph over Nodes with at most MaxLinks links, every initial  *)
(* status vector and every history of status changes between updates, and  *)
(* checks that after each update the set of junctions the search from the  *)
(* sources cannot reach equals the declaratively isolated set.             *)
(***************************************************************************)
EXTENDS Integers, FiniteSets, Sequences, TLC
CONSTANTS Nodes, Srcs, MaxLinks, MaxChanges
ASSUME Srcs \subseteq Nodes

Pairs == {p \in SUBSET Nodes : Cardinality(p) = 2}
VARIABLES links,      \* sequence of pairs (the multigraph; orientation is irrelevant for reachability)
          status,     \* sequence of 0/1 (closed / not closed) per link
          data,       \* function pair -> 0/1: the adjacency entries
          dirty,      \* set of link indices changed since the last update (the change tracker)
          pc, nchg
vars == <<links, status, data, dirty, pc, nchg>>

LinksOf(p) == {i \in DOMAIN links : links[i] = p}
Multi == {p \in Pairs : Cardinality(LinksOf(p)) > 1}

\* declarative: reachable from the sources over links that are not closed
RECURSIVE Grow(_, _)
Grow(R, open) == LET R2 == R \cup UNION {p \in open : p \cap R # {}} IN IF R2 = R THEN R ELSE Grow(R2, open)
OpenPairsDecl == {links[i] : i \in {j \in DOMAIN links : status[j] = 1}}
IsolatedDecl == Nodes \ Grow(Srcs, OpenPairsDecl)
\* what the graph search sees
OpenPairsData == {p \in Pairs : p \in DOMAIN data /\ data[p] > 0}
IsolatedImpl == Nodes \ Grow(Srcs, OpenPairsData)

SeqsUpTo(S, n) == UNION {[1..k -> S] : k \in 0..n}
Init == /\ links \in SeqsUpTo(Pairs, MaxLinks)
        /\ status \in [DOMAIN links -> {0, 1}]
        \* _initialize_internal_graph: csr_matrix sums duplicates -> number of open links of the pair
        /\ data = [p \in {links[i] : i \in DOMAIN links} |-> Cardinality({i \in LinksOf(p) : status[i] = 1})]
        /\ dirty = {} /\ pc = "run" /\ nchg = 0

\* a control changes the status of a link (any number of changes may accumulate before the next update)
Change(i) == /\ pc = "run" /\ nchg < MaxChanges
             /\ status' = [status EXCEPT ![i] = 1 - @]
             /\ dirty' = dirty \cup {i} /\ nchg' = nchg + 1
             /\ UNCHANGED <<links, data, pc>>

\* _update_internal_graph
RECURSIVE ApplyDirty(_, _)
ApplyDirty(d, S) == IF S = {} THEN d
                    ELSE LET i == CHOOSE x \in S : TRUE IN ApplyDirty([d EXCEPT ![links[i]] = status[i]], S \ {i})
FixMulti(d) == [p \in DOMAIN d |-> IF p \in Multi THEN (IF \E i \in LinksOf(p) : status[i] = 1 THEN 1 ELSE 0) ELSE d[p]]
Update == /\ pc = "run"
          /\ data' = FixMulti(ApplyDirty(data, dirty))
          /\ dirty' = {} /\ pc' = "solved"
          /\ UNCHANGED <<links, status, nchg>>
Solve == pc = "solved" /\ pc' = "run" /\ UNCHANGED <<links, status, data, dirty, nchg>>

Next == (\E i \in DOMAIN links : Change(i)) \/ Update \/ Solve
Spec == Init /\ [][Next]_vars

\* C09.incremental_eq_reach: at every solve the isolated set is the declarative one
IncrementalEqReach == pc = "solved" => IsolatedImpl = IsolatedDecl
\* the initial structure is already right (first solve happens after an Update with dirty = {})
=============================================================================

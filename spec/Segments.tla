------------------------------ MODULE Segments ------------------------------
(***************************************************************************)
(* C18 - valve segmentation.  A valve sits between a link and one of its   *)
(* end nodes.  Take the incidence graph whose vertices are the nodes and   *)
(* the links of the network and whose edges join a link to each of its end *)
(* nodes, remove the edges on which a valve sits: the segments are the     *)
(* connected components.  Valve attributes are defined from the segments.  *)
(* TLC enumerates every multigraph and valve layer in scope (Init) and     *)
(* emits the expected partition and attributes; the harness compares the   *)
(* real wntr.metrics.valve_segments / valve_segment_attributes label-      *)
(* independently.                                                          *)
(***************************************************************************)
EXTENDS Integers, Sequences, FiniteSets, TLC, Json
CONSTANTS NNodes, MaxLinks, WithDuplicates

Nodes == 1..NNodes
Pairs == {<<a, b>> \in Nodes \X Nodes : a < b}
\* multigraphs: non-decreasing sequences of node pairs (parallel links allowed), every node may be a dead end or isolated
PairRank(p) == p[1] * 10 + p[2]
Graphs == UNION {{g \in [1..k -> Pairs] : \A i \in 1..(k - 1) : PairRank(g[i]) <= PairRank(g[i + 1])} : k \in 0..MaxLinks}
Incidences(g) == {<<n, l>> \in Nodes \X DOMAIN g : n = g[l][1] \/ n = g[l][2]}

VARIABLES g, valves, dup
vars == <<g, valves, dup>>
Init == /\ g \in Graphs
        /\ valves \in SUBSET Incidences(g)
        /\ dup \in (IF WithDuplicates /\ valves # {} THEN {FALSE, TRUE} ELSE {FALSE})
Next == UNCHANGED vars
Spec == Init /\ [][Next]_vars

\* vertices of the incidence graph: <<"N", n>> and <<"L", l>>
V == {<<"N", n>> : n \in Nodes} \cup {<<"L", l>> : l \in DOMAIN g}
E == {{<<"N", x[1]>>, <<"L", x[2]>>} : x \in Incidences(g) \ valves}
RECURSIVE Grow(_)
Grow(S) == LET S2 == S \cup UNION {e \in E : e \cap S # {}} IN IF S2 = S THEN S ELSE Grow(S2)
Comp(v) == Grow({v})
Partition == {Comp(v) : v \in V}

\* attributes: demand of node n is n, length of link l is 10*l (distinguishable values)
Dem(S) == LET ns == {v[2] : v \in {x \in S : x[1] = "N"}} IN
          IF ns = {} THEN 0 ELSE LET f[T \in SUBSET ns] == IF T = {} THEN 0 ELSE LET x == CHOOSE y \in T : TRUE IN x + f[T \ {x}] IN f[ns]
Len_(S) == LET ls == {v[2] : v \in {x \in S : x[1] = "L"}} IN
          IF ls = {} THEN 0 ELSE LET f[T \in SUBSET ls] == IF T = {} THEN 0 ELSE LET x == CHOOSE y \in T : TRUE IN 10 * x + f[T \ {x}] IN f[ls]
Min(a, b) == IF a < b THEN a ELSE b
Max(a, b) == IF a > b THEN a ELSE b
Attr(v) ==     \* v = <<node, link>>
  LET cn == Comp(<<"N", v[1]>>)  cl == Comp(<<"L", v[2]>>) IN
  IF cn = cl THEN [node |-> v[1], link |-> v[2], surround |-> 0, dem |-> <<0, 1>>, len |-> <<0, 1>>]
  ELSE LET S == cn \cup cl
           others == {w \in valves \ {v} : <<"N", w[1]>> \in S \/ <<"L", w[2]>> \in S}
           dn == Dem(cn)  dl == Dem(cl)  ln == Len_(cn)  ll == Len_(cl)
       IN  [node |-> v[1], link |-> v[2], surround |-> Cardinality(others),
            \* (a + b) / max(a, b) - 1 = min(a, b) / max(a, b); 0 when both are 0
            dem |-> IF dn = 0 /\ dl = 0 THEN <<0, 1>> ELSE <<Min(dn, dl), Max(dn, dl)>>,
            len |-> IF ln = 0 /\ ll = 0 THEN <<0, 1>> ELSE <<Min(ln, ll), Max(ln, ll)>>]

\* lemmas on the specification itself
IsPartition == /\ UNION Partition = V /\ \A p, q \in Partition : p = q \/ p \cap q = {}
ValveSeparates == \A v \in valves : \* removing a valve never leaves link and node adjacent through that incidence
                     {<<"N", v[1]>>, <<"L", v[2]>>} \notin E
Emit == PrintT(<<"CASE", ToJson([links |-> g, valves |-> valves, dup |-> dup, parts |-> Partition,
                                 attrs |-> {Attr(v) : v \in valves}])>>)
=============================================================================

----------------------------- MODULE ClockTable -----------------------------
(***************************************************************************)
(* C04 - clock times written the EPANET way ("12:30 PM", "1:15 AM", "7:05")*)
(* and the instant of the day they denote: 12 AM is midnight, 12 PM noon,  *)
(* h AM = h, h PM = h + 12 for 1 <= h <= 11, and a time without suffix is  *)
(* on the 24-hour clock.  TLC prints the table for a grid of clock texts;  *)
(* the harness builds the conditions from the TEXT and the specification   *)
(* (WntrSim / Controls) is given the INSTANT, so the real run is judged    *)
(* against the instant the text denotes.                                   *)
(***************************************************************************)
EXTENDS Integers, Sequences, TLC, Json
VARIABLE x
Clock12(h, m, s, ap) ==
  CASE ap = ""   -> h * 3600 + m * 60 + s
    [] ap = "AM" -> (h % 12) * 3600 + m * 60 + s
    [] ap = "PM" -> ((h % 12) + 12) * 3600 + m * 60 + s
Hours(ap) == IF ap = "" THEN 0..23 ELSE 1..12
Table == {[h |-> h, m |-> m, s |-> s, ap |-> ap, sec |-> Clock12(h, m, s, ap)] :
            h \in 0..23, m \in {0, 30, 59}, s \in {0}, ap \in {"", "AM", "PM"}}
Rows == {r \in Table : r.h \in Hours(r.ap)}
Init == x = 0
Next == UNCHANGED x
Spec == Init /\ [][Next]_x
Emit == PrintT(<<"CLOCK", ToJson(Rows)>>)
InRange == \A r \in Rows : r.sec \in 0..86399
=============================================================================

------------------------------- MODULE Metrics -------------------------------
(***************************************************************************)
(* C20 - demand, resilience and cost metrics as exact rational formulas.   *)
(* A case records the inputs (model constants, result tables) and the      *)
(* values the wntr.metrics functions returned; TLC recomputes every value  *)
(* from the inputs and compares (1e-9 relative).                           *)
(*                                                                         *)
(* kind "demand":  Pat, PatStart, DM, patterns (record name -> seq),       *)
(*   juncs (seq of [name, dem: seq of [base, pat]]), times (seq of ints),  *)
(*   obs.expected (record name -> seq over times), obs.avg (name -> num),  *)
(*   obs.pop (name -> int), R                                              *)
(* kind "resilience": juncs, res, tanks, pumps with constants, T rows of   *)
(*   head / pressure / demand / flow, Pstar, eff (percent), price, Rep,    *)
(*   obs.todini, obs.mri, obs.mri_sys, obs.wsa, obs.tank_cap, obs.power,   *)
(*   obs.energy, obs.cost                                                  *)
(* kind "cost": pipes [diam, len], tanks [diam, maxl], prvs [diam],        *)
(*   ppumps [power], hpumps [A, B] (two-point curves, C = 1), eff,         *)
(*   obs.cost, obs.ghg                                                     *)
(***************************************************************************)
EXTENDS Dec, Sequences, FiniteSets, TLC, Json, IOUtils
VARIABLES i, viol
Cases == JsonDeserialize(IOEnv.CASES)
Tol == Sci(1, -9)
N(x) == Num(x)
R1 == RInt(1)
RECURSIVE RSum(_)
RSum(s) == IF s = <<>> THEN RInt(0) ELSE RAdd(Head(s), RSum(Tail(s)))
RNum(x) == RDec(N(x))

\* ------------------------------------------------------------------ demand
RECURSIVE Gcd(_, _)
Gcd(a, b) == IF b = 0 THEN a ELSE Gcd(b, a % b)
Lcm(a, b) == (a \div Gcd(a, b)) * b
RECURSIVE LcmAll(_, _)
LcmAll(s, acc) == IF s = <<>> THEN acc ELSE LcmAll(Tail(s), Lcm(acc, Head(s)))
Mult(c, pat, t) == IF pat = "" THEN FromInt(1)
                   ELSE LET m == c.patterns[pat] IN
                        IF Len(m) = 0 THEN FromInt(1) ELSE N(m[(((t + c.PatStart) \div c.Pat) % Len(m)) + 1])
RECURSIVE DemAt(_, _, _, _)
DemAt(c, d, t, k) == IF k > Len(d) THEN Zero ELSE Add(Mul(Mul(N(d[k].base), Mult(c, d[k].pat, t)), N(c.DM)), DemAt(c, d, t, k + 1))
Expected(c, j, t) == DemAt(c, j.dem, t, 1)
\* with a category filter: only the demand entries of that category count (every entry, not only the first)
RECURSIVE DemAtCat(_, _, _, _, _)
DemAtCat(c, d, t, k, cat) == IF k > Len(d) THEN Zero
                             ELSE Add(IF d[k].cat = cat THEN Mul(Mul(N(d[k].base), Mult(c, d[k].pat, t)), N(c.DM)) ELSE Zero,
                                      DemAtCat(c, d, t, k + 1, cat))
ExpectedCat(c, j, t) == DemAtCat(c, j.dem, t, 1, c.cat)
\* one common period of all patterns: lcm of 24 h and every pattern's length * step
PatNames(c) == DOMAIN c.patterns
Period(c) == LET names == PatNames(c)
                 lens == {Len(c.patterns[p]) * c.Pat : p \in {q \in names : Len(c.patterns[q]) > 0}}
                 RECURSIVE LL(_, _)
                 LL(S, acc) == IF S = {} THEN acc ELSE LET x == CHOOSE y \in S : TRUE IN LL(S \ {x}, Lcm(acc, x))
             IN  LL(lens, 86400)
RECURSIVE SumOver(_, _, _, _)
SumOver(c, j, k, n) == IF k = n THEN Zero ELSE Add(Expected(c, j, k * c.Pat), SumOver(c, j, k + 1, n))
Average(c, j) == LET n == Period(c) \div c.Pat IN <<SumOver(c, j, 0, n), FromInt(n)>>
RECURSIVE SumOverCat(_, _, _, _)
SumOverCat(c, j, k, n) == IF k = n THEN Zero ELSE Add(ExpectedCat(c, j, k * c.Pat), SumOverCat(c, j, k + 1, n))
AverageCat(c, j) == LET n == Period(c) \div c.Pat IN <<SumOverCat(c, j, 0, n), FromInt(n)>>
DemandClauses(c) ==
  LET bad(n, ok) == IF ok THEN {} ELSE {n} IN
  UNION {LET j == c.juncs[k] IN
         bad("C20.expected_demand@" \o j.name,
             \A q \in DOMAIN c.times : Close(N(c.obs.expected[j.name][q]), Expected(c, j, c.times[q]), Sci(1, -15), Tol))
         \cup bad("C20.avg_expected@" \o j.name, RClose(N(c.obs.avg[j.name]), Average(c, j), Sci(1, -15), Tol))
         \cup bad("C20.expected_demand_category@" \o j.name,
                  \A q \in DOMAIN c.times : Close(N(c.obs.expected_cat[j.name][q]), ExpectedCat(c, j, c.times[q]), Sci(1, -15), Tol))
         \cup bad("C20.avg_expected_category@" \o j.name, RClose(N(c.obs.avg_cat[j.name]), AverageCat(c, j), Sci(1, -15), Tol))
         \cup bad("C20.population@" \o j.name,
                  \* pop = round(avg / R):  |pop * R - avg| <= R / 2
                  LET a == Average(c, j)  p == FromInt(c.obs.pop[j.name]) IN
                  Leq(Mul(FromInt(2), Abs(Sub(Mul(Mul(p, N(c.R)), a[2]), a[1]))), Mul(Mul(N(c.R), a[2]), Sci(1000001, -6))))
         : k \in DOMAIN c.juncs}

\* ------------------------------------------------------------------ resilience / pumps
Row(c, tab, t, n) == N(c[tab][t][n])
ResClauses(c) ==
  LET bad(n, ok) == IF ok THEN {} ELSE {n}
      T == DOMAIN c.head
      J == c.juncs  Rs == c.res  PP == c.pumps
      elev(t, j) == Sub(Row(c, "head", t, j), Row(c, "pressure", t, j))
      Pout(t) == SumSeq([k \in DOMAIN J |-> Mul(Row(c, "demand", t, J[k]), Row(c, "head", t, J[k]))])
      Pexp(t) == SumSeq([k \in DOMAIN J |-> Mul(Row(c, "demand", t, J[k]), Add(N(c.Pstar), elev(t, J[k])))])
      PinR(t) == SumSeq([k \in DOMAIN Rs |-> Neg(Mul(Row(c, "demand", t, Rs[k]), Row(c, "head", t, Rs[k])))])
      gain(t, p) == Sub(Row(c, "head", t, p.b), Row(c, "head", t, p.a))
      PinP(t) == SumSeq([k \in DOMAIN PP |-> Mul(Row(c, "flow", t, PP[k].name), Abs(gain(t, PP[k])))])
      todini(t) == <<Sub(Pout(t), Pexp(t)), Sub(Add(PinR(t), PinP(t)), Pexp(t))>>
      effr == <<N(c.eff), FromInt(100)>>
      power(t, p) == RDiv(RDec(Mul(Mul(FromInt(9810), gain(t, p)), Row(c, "flow", t, p.name))), effr) IN
  \* (a denominator that cancels to rounding noise - below 1e-9 of its terms - leaves the index undefined: any value passes)
  UNION {bad("C20.todini", Leq(Abs(todini(t)[2]), Mul(Sci(1, -9), Add(Add(Abs(PinR(t)), Abs(PinP(t))), Abs(Pexp(t))))) \/
                           (IF todini(t)[2].n THEN RClose(N(c.obs.todini[t]), <<Neg(todini(t)[1]), Neg(todini(t)[2])>>, Sci(1, -12), Tol)
                            ELSE RClose(N(c.obs.todini[t]), todini(t), Sci(1, -12), Tol)))
         \cup UNION {LET pexp == Add(N(c.Pstar), elev(t, J[k]))  pout == Row(c, "head", t, J[k]) IN
                     bad("C20.mri", pexp.n \/ IsZero(pexp) \/ RClose(N(c.obs.mri[t][J[k]]), <<Sub(pout, pexp), pexp>>, Sci(1, -12), Tol))
                     \cup bad("C20.wsa", IsZero(Row(c, "expected", t, J[k])) \/
                              RClose(N(c.obs.wsa[t][J[k]]),
                                     (IF Row(c, "expected", t, J[k]).n THEN <<Neg(Row(c, "demand", t, J[k])), Neg(Row(c, "expected", t, J[k]))>>
                                      ELSE <<Row(c, "demand", t, J[k]), Row(c, "expected", t, J[k])>>), Sci(1, -12), Tol))
                     : k \in DOMAIN J}
         \cup bad("C20.mri_system", IsZero(Pexp(t)) \/ Pexp(t).n \/ RClose(N(c.obs.mri_sys[t]), <<Sub(Pout(t), Pexp(t)), Pexp(t)>>, Sci(1, -12), Tol))
         \cup UNION {bad("C20.pump_power", RClose(N(c.obs.power[t][PP[k].name]), power(t, PP[k]), Sci(1, -9), Tol))
                     \cup bad("C20.pump_energy", RClose(N(c.obs.energy[t][PP[k].name]), RMul(power(t, PP[k]), RInt(c.Rep)), Sci(1, -9), Tol))
                     \cup bad("C20.pump_cost", RClose(N(c.obs.cost[t][PP[k].name]), RMul(RMul(power(t, PP[k]), RInt(c.Rep)), RNum(PP[k].price)), Sci(1, -12), Tol))   \* the pump's own price, else the global one
                     : k \in DOMAIN PP}
         \cup UNION {LET tk == c.tanks[k] IN
                     bad("C20.tank_capacity",   \* cylinder: level / max level
                         RClose(N(c.obs.tank_cap[t][tk.name]), <<Row(c, "pressure", t, tk.name), N(tk.maxl)>>, Sci(1, -12), Tol))
                     : k \in DOMAIN c.tanks}
         : t \in T}

\* ------------------------------------------------------------------ annual network cost / GHG
Inch == Sci(254, -4)
DiamIn == <<4, 6, 8, 10, 12, 14, 16, 18, 20, 24, 28, 30>>
PipeCost == <<Sci(831, -2), Sci(101, -1), Sci(121, -1), Sci(1296, -2), Sci(1522, -2), Sci(1662, -2), Sci(1941, -2), Sci(222, -1),
              Sci(2466, -2), Sci(3569, -2), Sci(4008, -2), Sci(426, -1)>>
PrvCost == <<323, 529, 779, 1113, 1892, 2282, 4063, 4452, 4564, 5287, 6122, 6790>>
PipeGhg == <<Sci(59, -1), Sci(971, -2), Sci(1394, -2), Sci(1843, -2), Sci(2316, -2), Sci(2809, -2), Sci(3309, -2), Sci(3835, -2),
             Sci(4376, -2), Sci(5499, -2), Sci(6657, -2), Sci(7258, -2)>>
TankVol == <<500, 1000, 2000, 3750, 5000, 10000>>
TankCost == <<14020, 30640, 61210, 87460, 122420, 174930>>
PumpP == <<11310, 22620, 24880, 31670, 38000, 45240, 49760, 54280, 59710>>
PumpCost == <<2850, 3225, 3307, 3563, 3820, 4133, 4339, 4554, 4823>>
\* index of the table entry closest to x (the first one on a tie), x a rational, keys a sequence of decimals
AbsDiff(key, x) == LET r == RSub(RDec(key), x) IN <<Abs(r[1]), r[2]>>
Nearest(keys, x) ==
  CHOOSE k \in DOMAIN keys : \A m \in DOMAIN keys :
      \/ RCmp(AbsDiff(keys[k], x), AbsDiff(keys[m], x)) < 0
      \/ (RCmp(AbsDiff(keys[k], x), AbsDiff(keys[m], x)) = 0 /\ k <= m)
DiamKeys == [k \in DOMAIN DiamIn |-> Mul(FromInt(DiamIn[k]), Inch)]
IntKeys(s) == [k \in DOMAIN s |-> FromInt(s[k])]
Pi4 == Add(Sci(785398163, -9), Sci(397448, -15))
CostClauses(c) ==
  LET bad(n, ok) == IF ok THEN {} ELSE {n}
      effr == <<N(c.eff), FromInt(100)>>          \* global efficiency is stored in percent
      pipe == RSum([k \in DOMAIN c.pipes |-> RDec(Mul(PipeCost[Nearest(DiamKeys, RNum(c.pipes[k].diam))], N(c.pipes[k].len)))])
      ghg  == RSum([k \in DOMAIN c.pipes |-> RDec(Mul(PipeGhg[Nearest(DiamKeys, RNum(c.pipes[k].diam))], N(c.pipes[k].len)))])
      tank == RSum([k \in DOMAIN c.tanks |->
                      RInt(TankCost[Nearest(IntKeys(TankVol), RDec(Mul(Mul(Pi4, Mul(N(c.tanks[k].diam), N(c.tanks[k].diam))), N(c.tanks[k].maxl))))])])
      prv  == RSum([k \in DOMAIN c.prvs |-> RInt(PrvCost[Nearest(DiamKeys, RNum(c.prvs[k].diam))])])
      pp   == RSum([k \in DOMAIN c.ppumps |-> RInt(PumpCost[Nearest(IntKeys(PumpP), RDiv(RNum(c.ppumps[k].power), effr))])])
      \* two-point curve H = A - B q: maximum of rho g q H at q* = A / (2B):  Pmax = 9810 A^2 / (4 B) / eff
      hp   == RSum([k \in DOMAIN c.hpumps |->
                      RInt(PumpCost[Nearest(IntKeys(PumpP),
                           RDiv(<<Mul(FromInt(9810), Mul(N(c.hpumps[k].A), N(c.hpumps[k].A))), Mul(FromInt(4), N(c.hpumps[k].B))>>, effr))])]) IN
  bad("C20.network_cost", RClose(N(c.obs.cost), RAdd(RAdd(RAdd(pipe, tank), RAdd(prv, pp)), hp), Sci(1, -9), Tol))
  \cup bad("C20.ghg", RClose(N(c.obs.ghg), ghg, Sci(1, -9), Tol))

Clauses(c) == CASE c.kind = "demand" -> DemandClauses(c) [] c.kind = "resilience" -> ResClauses(c) [] c.kind = "cost" -> CostClauses(c)
Init == i = 0 /\ viol = {}
Next == i < Len(Cases) /\ i' = i + 1 /\ viol' = Clauses(Cases[i + 1])
Spec == Init /\ [][Next]_<<i, viol>>
Report == viol # {} => PrintT(<<"VIOL", i, viol>>)
Done == TLCGet("stats").diameter - 1 = Len(Cases)
=============================================================================

#!/venv/bin/python
"""Regenerates MANIFEST.json from the table below (keeps it valid at all times)."""
import json, os
HERE = os.path.dirname(os.path.dirname(os.path.abspath(__file__)))
ALL = ["C%02d" % i for i in range(1, 21)]
HYD_NOTE = "Trusted: TLC; Dec.tla exact decimal arithmetic (self-tested by setup); recorded floats are logged at their shortest round-trip decimal; tolerances derived from the solver criterion max|residual| < 1e-6 with factor 2; non-converged runs are counted, not asserted."
CLAIMED = {
 "C20": dict(cat="model_checking", tech="exact rational transcription of the metric formulas in TLA+ (Metrics.tla); recorded calls of wntr.metrics on seeded models / tables validated by TLC; expected_demand cross-checked with the DD simulator",
   text="Metrics.tla defines expected and average expected demand (mean over lcm(24 h, all pattern periods) with pattern_start), population, water service availability, Todini, MRI (both modes), tank capacity, pump power/energy/cost, annual network cost (nearest-entry table lookups, maximum pump power) and GHG as exact rational formulas; for seeded models with pattern lengths that do not divide a day, several categories, synthetic result tables and sizes on both sides of every table bucket boundary the values returned by wntr.metrics are recomputed and compared by TLC (1e-9 relative); expected_demand is also compared with the demand WNTRSimulator delivers.",
   note="Trusted: TLC, Dec.tla. Head pumps in cost cases use two-point curves (rational optimum). Known finding (open): annual_network_cost uses the efficiency in percent as a fraction.", ref="DESIGN.md section 5 C20"),
 "C19": dict(cat="model_checking", tech="TLA+ contracts of split/break/skeletonize over recorded before/after projections (Morph.tla, exact rational geometry) decided by TLC; split hydraulics compared by TLC (Agree.tla)",
   text="Morph.tla computes, from the pipe before the operation and the parameters, the lengths of both halves, the elevation (reservoir rule) and the coordinates of the new junction along the polyline in exact rationals, and states connectivity, attribute inheritance, no check valve on the new pipe, every other element unchanged, input untouched; TLC checks it on a grid of fractions {0,1/4,1/3,1/2,1} x either end x vertices x CV/closed/minor loss x end node types, and compares the simulated rows of the rest of the network before/after a split. For skeletonize on random networks TLC checks retention of tanks/reservoirs/pumps/valves/control elements, equality of total demand at every pattern time and that the map partitions the original nodes over the retained ones.",
   note="Trusted: TLC, Dec.tla. Polylines are axis-parallel with integer coordinates. Known finding (open): split duplicates the minor loss (documented behaviour) and therefore changes hydraulics.", ref="DESIGN.md section 5 C19"),
 "C13": dict(cat="translation_validation", tech="translation validation: to_dict -> JSON -> from_dict -> to_dict on random API-built models; structural equality of canonicalised dictionaries decided by TLC (Same.tla)",
   text="Each subject is a random feature-rich model (vertices on links of every type, tags, initial quality, several demands per junction, curves, a source, leaks, controls, a rule with AND/OR, ELSE and priority). Three round trips per subject (JSON text, in-memory dictionary, append to an empty model); TLC compares the canonical dictionaries (floats by repr) after exactly the normalisation the property names.",
   note="Trusted: TLC; the canonicaliser (floats by repr, tuples as lists).", ref="DESIGN.md section 5 C13"),
 "C16": dict(cat="fault_enumeration", tech="environment action SolveFails in WntrSim.tla (TLC: invariant FailStop, liveness Terminates under weak fairness); enumeration of a failing solve at every index against the real run_sim, each outcome judged by TLC (FailStop.tla)",
   text="The specification treats the nonlinear solve as environment and adds the action SolveFails; TLC checks for every failure index that the loop stops there with the fault-free prefix reported and that every behaviour terminates. Against the code, for time-family schedules and random networks, every call index k at the solver boundary is made to fail (convergence_error False/True, with/without backup solver) plus natural failures (MAXITER too small, trial limit); TLC checks per run: termination, RuntimeError iff convergence_error, otherwise warning + error_code, strictly increasing index on the report grid, one column per element, finite values, nothing at or after the failed step and the rows before it equal to the clean run.",
   note="Failures are injected by wrapping wntr.sim.core._solver_helper from the harness (no source hook). Termination is observed under a 120 s alarm per run.", ref="DESIGN.md section 5 C16"),
 "C11": dict(cat="model_checking", tech="TLC structural comparison of canonicalised model dictionaries across run/reset cycles (Same.tla), TLC comparison of result tables of reruns and copies (Agree.tla), action property DefinitionUnchanged on WntrSim.tla",
   text="For random feature-rich models with controls that change statuses, valve settings and pump statuses, leaks, level limits and PDD, the canonical to_dict() is recorded before and after every WNTRSimulator run, every reset_initial_values() and an EpanetSimulator run; TLC checks structural equality with the initial dictionary, and that run k equals run 1 and a deepcopy's run equals the original's (1e-9). On the algorithmic model TLC checks that no action of run_sim writes the scenario definition.",
   note="Trusted: TLC. The definition is what to_dict() contains; floats compared by repr.", ref="DESIGN.md section 5 C11"),
 "C10": dict(cat="model_checking", tech="TLA+ model of run_sim with a NewRun action (WntrSim.tla): TLC checks that paused runs refine the uninterrupted declarative timeline; paused/pickled real runs replayed against it; general networks compared by TLC (Agree.tla)",
   text="WntrSim.tla models run_sim returning at a pause duration and a new simulator continuing from the state persisted in the model; for control/rule schedules with 1-3 pauses TLC checks that the algorithm still refines the declarative timeline and emits it, and the real simulator run in parts (new simulator per part, optional pickle round trip) must reproduce it with strictly increasing times. On general networks the concatenated rows of the parts are compared with the single run by TLC: same times, restart at the next hydraulic step, equal heads/demands/flows/statuses up to the solver tolerance.",
   note="Trusted: TLC. Pause points on the hydraulic grid. Two converged solutions may differ by the solver tolerance: 2e-4 absolute + 1e-4 relative; status differences tolerated only on links carrying < 1e-4 m3/s.", ref="DESIGN.md section 5 C10"),
 "C18": dict(cat="model_checking", tech="TLA+ definition of segments as connected components of the link-node incidence graph minus valves (Segments.tla); TLC enumerates all small multigraphs x valve layers and the real functions are compared label-independently",
   text="Segments.tla defines the partition and the valve attributes (surrounding valves, demand / length increase as exact rationals). TLC checks the partition lemmas and enumerates every multigraph with <= 3 nodes / 3 links (4 / 4 thorough) incl. parallel links, dead ends and isolated nodes, with every subset of link-node incidences as valve layer and an optional duplicated row; valve_segments and valve_segment_attributes must give positive labels, exactly the specified blocks, correct sizes and attributes.",
   note="Trusted: TLC. Exhaustive inside the stated scope only.", ref="DESIGN.md section 5 C18"),
 "C15": dict(cat="model_checking", tech="TLC trace validation of aml.Model evaluation events against exact rational evaluation and symbolic differentiation (Aml.tla); TLC model checking of leaf reference counting (AmlReg.tla)",
   text="Aml.tla defines Eval and the partial derivative of expression trees (+ - * / ** neg abs sign, if/else, inequalities, conditional constraints) in exact rational arithmetic, with transcendental functions and non-integer powers uninterpreted (table checked to be taken at the spec's own argument). Seeded random histories on a real aml.Model (extension rebuilt from source) build square systems with reflected operators, constant folding cases, nested powers, shared sub-expressions and boundary values, evaluate, replace constraints and change values; TLC judges every evaluation event: residuals, every Jacobian entry, index bijections, live variables. AmlReg.tla: TLC checks refcount = number of referencing constraints over all register/remove histories in scope.",
   note="Trusted: TLC, Dec.tla; libm values of exp/log/sin/cos/tan/asin/acos/atan and non-integer powers at a point.", ref="DESIGN.md section 5 C15"),
 "C14": dict(cat="model_checking", tech="TLA+ abstract data type of the model (Registry.tla): TLC checks its invariants and generates edit histories that are replayed on a real WaterNetworkModel with the views compared after every operation",
   text="Registry.tla holds the primary data and defines every view (name lists, typed indexes, end nodes, usage records) declaratively, with the refusal rules of remove_*. TLC checks EndNodesExist/RefsExist/TypedPartition on all reachable states of a small universe, enumerates every history of length 2 (3 in the thorough tier) and samples long histories with -simulate; each is performed on the real model and after every operation the real views (all typed iterators fully iterated, counts, get_links_for_node, to_graph, get_usage/orphaned, describe) must equal the specified view and the refusal outcome must match.",
   note="Trusted: TLC; operations are applied with valid arguments through the public API; universe of 3 node / 2 link / 2 pattern / 2 curve / 1 source / 1 control names.", ref="DESIGN.md section 5 C14"),
 "C06": dict(cat="model_checking", tech="TLC trace validation: tank integration identity and level limits (Hydraulics.tla TankStep/TankLimits) on consecutive solved rows",
   text="With report_timestep='ALL' every pair of consecutive solved steps of runs on random tank networks (cylindrical and volume-curve tanks with small capacity, several links incl. pumps and CV pipes) is checked by TLC: volume(level2) - volume(level1) = reported net inflow x elapsed time, level(0) = init_level, limits respected up to two seconds of flow, no discharge at min / no filling at max.",
   note=HYD_NOTE + " A volume curve is not asserted outside its first/last level. Known finding (open): volume-curve tanks overshoot limits when a trial step leaves the curve.", ref="DESIGN.md section 5 C06"),
 "C07": dict(cat="model_checking", tech="TLC trace validation of pressure sweeps: five-branch PDD curve per row (PowCert), monotonicity and continuity over all ordered row pairs",
   text="Sweep traces drive the pressure at a PDD junction through ~75 values from far below Pmin to far above Preq, sub-millimetre around the four band edges, for global and per-junction (Pmin, Preq, exponent) from a grid incl. demand 0; TLC decides the branch law per row and monotonicity/continuity over all pairs; PDD rows of random networks are checked too.",
   note=HYD_NOTE + " Inside the 0.05 m smoothing bands only boundedness/monotonicity/continuity are asserted.", ref="DESIGN.md section 5 C07"),
 "C08": dict(cat="model_checking", tech="TLC trace validation of the leak law (root-free), the activity window and the node balance; remove_leak replay",
   text="Random networks with 1-3 leaks on junctions and tanks, start/end on and off the hydraulic grid, DD with negative pressures and PDD: TLC checks on every leaky node x row that q^2 = (Cd A)^2 2 g p within the solver tolerance on q when active at positive pressure, zero otherwise, active exactly on [start, end), and that the leak is part of the node balance; remove_leak leaves no control and no flow.",
   note=HYD_NOTE, ref="DESIGN.md section 5 C08"),
 "C09": dict(cat="model_checking", tech="TLC model checking of the incremental adjacency (Isolation.tla) + TLC trace validation: zeroed <=> unreachable over reported statuses",
   text="Isolation.tla models the per-node-pair adjacency entry shared by parallel links and its update after status changes; TLC checks for every multigraph/status history in scope that the isolated set equals declarative reachability. The real simulator (C++ search rebuilt from source) is run on multigraphs with parallel links and schedules of closures/openings; TLC recomputes reachability from the reported statuses of every row and checks isolated => all zero, connected => solved normally (balance, demand).",
   note=HYD_NOTE, ref="DESIGN.md section 5 C09"),
 "C01": dict(cat="model_checking", tech="TLC trace validation of recorded WNTRSimulator runs against Hydraulics.tla (node balances and demand-driven demand in exact decimal arithmetic)",
   text="Every reported row of every run on seeded random feature-rich networks is checked by TLC (ObsTrace.tla) against the mass-balance clauses of Hydraulics.tla: junction balance incl. leaks, tank and reservoir demand = net inflow, and in DD mode delivered demand = sum base x pattern(t + pattern_start) x multiplier, with adjacency taken from the scenario definition, not from WNTR.",
   note=HYD_NOTE, ref="DESIGN.md section 5 C01"),
 "C02": dict(cat="model_checking", tech="TLC trace validation against the (type, status) law table of Hydraulics.tla; rational powers decided by verified witnesses (PowCert)",
   text="Every link x reported row of random networks and of single-link law probes (flows of both signs and near zero, both Hazen-Williams modes, 1/2/3-point and power pumps, PRV/PSV/FCV/TCV in each status) is judged by TLC against the one law selected by its type and reported status; Hazen-Williams and pump-curve powers are checked through witnesses that the specification verifies itself.",
   note=HYD_NOTE + " Known findings (open): reverse flow through open pumps, see known_findings.json.", ref="DESIGN.md section 5 C02"),
 "C04": dict(cat="model_checking", tech="TLA+ model of run_sim's presolve/rule loop (WntrSim.tla) checked by TLC to refine the declarative control semantics (Controls.tla); TLC-emitted timelines replayed into the real WNTRSimulator",
   text="Controls.tla states the observable semantics of time/clock-time controls and rules (EPANET's, calibrated against the 2.2 toolkit); WntrSim.tla is the loop of run_sim action by action. For every scenario TLC runs the algorithm, checks that it refines the declarative timeline, and emits the expected solved times and statuses; the real simulator is run on the same scenario and must report exactly those. Scope S1 (every single control/rule body x option grid) is exhaustive in the thorough tier, S2 (sets of <=3 controls and <=3 rules, priorities, conflicts) is sampled.",
   note="Trusted: TLC; hydraulics are irrelevant for time-only schedules (time family); outcomes the property leaves open are excluded by Controls!Determinate and counted.",
   ref="DESIGN.md section 5 C04"),
 "C17": dict(cat="model_checking", tech="TLA+ normative unit table (Units.tla) + TLC trace validation of recorded to_si/from_si calls; exhaustive over the table",
   text="The complete finite table FlowUnits x (HydParam x darcy flag | QualParam x MassUnits x reaction order) is specified in TLA+ from the physical definitions; TLC checks the table lemmas (inverse, family partition) and validates every recorded call of the real to_si/from_si (scalars, lists, arrays, dicts) against it, and that the recorded rows cover the whole table. Exhaustive in the table, sampled in the value.",
   note="Trusted: TLC, the Dec.tla limb arithmetic (self-tested against Python fractions by setup), published precision of WNTR's documented constants (1e-8 relative; 1e-6 for the ft2 constant). DataFrame inputs not asserted.",
   ref="DESIGN.md section 5 C17"),
}
NA_REASON = "check not built yet (work in progress; will be claimed once its TLA+ spec and conformance harness exist)"
NA = {}

def main():
    m = {"version": 1, "setup_cmd": "./check setup",
         "hooks": {"guard": "WNTR_VERIF",
                   "enable": "no source hooks: checks observe WNTR through its public API only; the two C++ extensions are rebuilt from /repo sources by the harness",
                   "baseline_off_cmd": "cd /repo && /venv/bin/python -m pytest -ra -q -p no:cacheprovider --timeout=900 --continue-on-collection-errors",
                   "source_commits": [], "add_only": True},
         "engines": [{"name": "tlc", "path": "/opt/veriftools/tla/tla2tools.jar", "serves_properties": sorted(CLAIMED),
                      "kind_free_text": "TLC model checker on spec/*.tla; traces replayed into / recorded from the real code by harness/*.py"}],
         "checks": [], "notes": "see DESIGN.md; known findings and fixes: known_findings.json", "not_applicable": []}
    for pid in ALL:
        if pid in CLAIMED:
            c = CLAIMED[pid]
            m["checks"].append({"property_id": pid, "quick_cmd": "./check %s --tier quick" % pid,
                                "thorough_cmd": "./check %s --tier thorough" % pid,
                                "evidence_file": "evidence/%s.json" % pid,
                                "replay_cmd_template": "./check %s --replay {path}" % pid, "engine": "tlc",
                                "level_claimed": {"category": c["cat"], "text": c["text"], "design_ref": c["ref"]},
                                "level_note": c["note"], "technique": c["tech"]})
        else:
            m["not_applicable"].append({"property_id": pid, "reason": NA.get(pid, NA_REASON)})
    with open(os.path.join(HERE, "MANIFEST.json"), "w") as f:
        json.dump(m, f, indent=1)
    import jsonschema
    jsonschema.validate(m, json.load(open("/root/.vp/MANIFEST.schema.json")))
    print("MANIFEST ok: %d claimed, %d not applicable" % (len(m["checks"]), len(m["not_applicable"])))

main()

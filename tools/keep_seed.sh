#!/bin/sh
# tools/keep_seed.sh <dir name under seeded/> <property> <source dir with patch.diff demo.py notes.md> "<needs>" "<detected by>"
# verifies demo fails with the patch and passes without (in a scratch worktree), then archives it under seeded/<name>/
set -e
NAME=$1; PROP=$2; SRC=$3; NEEDS=$4; DET=$5
WT=/tmp/wt_verify_$NAME
git -C /repo worktree add -q --detach $WT HEAD
for f in $(cd /repo && git ls-files -o -i --exclude-standard | grep '\.so$'); do cp /repo/$f $WT/$f; done
cd $WT
R0=0; PYTHONPATH=$WT /venv/bin/python $SRC/demo.py > /tmp/demo_clean.txt 2>&1 || R0=$?
git apply $SRC/patch.diff
R1=0; PYTHONPATH=$WT /venv/bin/python $SRC/demo.py > /tmp/demo_mut.txt 2>&1 || R1=$?
cd /verif; git -C /repo worktree remove --force $WT
echo "demo: clean rc=$R0 mutated rc=$R1"
[ "$R0" = "0" ] && [ "$R1" != "0" ] || { echo "NOT CONFIRMED"; exit 1; }
mkdir -p /verif/seeded/$NAME
cp $SRC/patch.diff $SRC/demo.py /verif/seeded/$NAME/
[ -f $SRC/notes.md ] && cp $SRC/notes.md /verif/seeded/$NAME/ || true
/venv/bin/python - "$NAME" "$PROP" "$NEEDS" "$DET" "$R0" "$R1" <<'PY'
import json,sys
name,prop,needs,det,r0,r1=sys.argv[1:7]
json.dump({"property":prop,"needs_to_manifest":needs,"confirmed":{"demo_rc_unmodified":int(r0),"demo_rc_with_patch":int(r1),
 "how":"scratch worktree of /repo HEAD (removed afterwards): demo.py run before and after `git apply patch.diff`; relevant test modules re-run by the author of the change (see notes.md)"},
 "detected_by":det}, open('/verif/seeded/%s/meta.json'%name,'w'), indent=1)
PY
echo kept $NAME

#!/bin/sh
# Runs the repository baseline (guard off) and compares with BASELINE.json stable_pass; prints missing passes.
# usage: tools/run_baseline.sh [outdir]   (outdir outside /verif and /repo, e.g. /tmp/baseline_run)
OUT=${1:-/tmp/baseline_run}
mkdir -p "$OUT"
cd /repo && /venv/bin/python -m pytest -ra -q -p no:cacheprovider --timeout=900 --continue-on-collection-errors --junitxml="$OUT/junit.xml" > "$OUT/log.txt" 2>&1
/venv/bin/python - "$OUT/junit.xml" <<'PY'
import sys, json, xml.etree.ElementTree as ET
base = json.load(open('/root/.vp/BASELINE.json'))
root = ET.parse(sys.argv[1]).getroot()
ok = set()
for tc in root.iter('testcase'):
    if not any(ch.tag in ('failure', 'error', 'skipped') for ch in tc):
        ok.add("%s::%s" % (tc.get('classname'), tc.get('name')))
missing = [t for t in base['stable_pass'] if t not in ok]
print("passed=%d baseline=%d missing=%d" % (len(ok), len(base['stable_pass']), len(missing)))
for m in missing:
    print("MISSING", m)
PY

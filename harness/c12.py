"""C12 - writing a model to an EPANET INP file and reading it back preserves it (translation validation).
Subjects: random feature-rich models built through the API (all element types, statuses, settings, curve types, multi
category demands, tags, vertices, sources, quality / reaction / energy / time / hydraulic options, controls on status and
setting, rules with AND/OR/ELSE/priority) x the ten flow units x INP versions 2.0 / 2.2.  Each subject is written, read,
written and read again; TLC (Equiv.tla) decides the equivalence of the projections section by section up to the print
precision of the format, and (Same.tla) that the second cycle changes nothing: projection and normalised INP text."""
import concurrent.futures as cf
import copy
import json
import os
import random
import re
import tempfile
import common
import netgen
import simnet
from common import num
import c13

UNITS = ["CFS", "GPM", "MGD", "IMGD", "AFD", "LPS", "LPM", "MLD", "CMH", "CMD"]


def N(x):
    return {"k": "n", "v": num(float(x))}


def S(x):
    return {"k": "s", "v": "" if x is None else str(x)}


def L(xs):
    return {"k": "l", "v": list(xs)}


def Dt(d):
    return {"k": "d", "v": d}


def cond_tree(c):
    name = type(c).__name__
    if name in ("AndCondition", "OrCondition"):
        return Dt({"op": S(name), "a": cond_tree(c._condition_1), "b": cond_tree(c._condition_2)})
    d = {"op": S(name), "rel": S(getattr(c, "_relation", ""))}
    thr = getattr(c, "_threshold", 0.0)
    if hasattr(c, "_source_obj"):
        d["src"] = S(c._source_obj.name)
        d["attr"] = S(c._source_attr)
        if getattr(c._source_obj, "node_type", "") == "Tank" and c._source_attr in ("head", "pressure"):
            # the INP format knows tank LEVELS only: a head (pressure) condition on a tank is the level condition it implies
            d["attr"] = S("level")
            thr = thr - (c._source_obj.elevation if c._source_attr == "head" else 0.0)
        if getattr(c._source_obj, "node_type", "") == "Junction" and c._source_attr == "head":
            # ... and junction PRESSURES only: a head condition on a junction is the pressure condition it implies
            d["attr"] = S("pressure")
            thr = thr - c._source_obj.elevation
    d["thr"] = N(thr)
    if hasattr(c, "_repeat"):
        d["rep"] = S(bool(c._repeat))
    return Dt(d)


def action_tree(a):
    obj, attr = a.target()
    v = a._value
    if attr == "status":
        return Dt({"target": S(obj.name), "attr": S(attr), "value": S(int(v))})
    return Dt({"target": S(obj.name), "attr": S(attr), "value": N(v) if isinstance(v, (int, float)) else S(v)})


def project(wn, version):
    """the part of the model the INP format has a place for, as a tagged tree"""
    nodes, links = {}, {}
    existing = set(wn.pattern_name_list)

    def P(name):          # a pattern name that refers to no pattern (the default name '1') is "no pattern"
        return S(name if name in existing else "")
    for name, n in wn.nodes():
        d = {"type": S(n.node_type), "tag": S(n.tag), "iq": N(n.initial_quality or 0.0),
             "xy": L([N(n.coordinates[0]), N(n.coordinates[1])])}
        if n.node_type == "Junction":
            d["elev"] = N(n.elevation)
            d["dem"] = L([Dt({"base": N(e.base_value), "pat": P(e.pattern_name), "cat": S(e.category)})
                          for e in n.demand_timeseries_list if e.base_value or len(n.demand_timeseries_list) > 1])
            d["emit"] = N(n.emitter_coefficient or 0.0)
        elif n.node_type == "Tank":
            d.update({"elev": N(n.elevation), "init": N(n.init_level), "min": N(n.min_level), "max": N(n.max_level),
                      "diam": N(n.diameter), "minvol": N(n.min_vol), "vcurve": S(n.vol_curve_name),
                      "overflow": S(bool(n.overflow) if version >= 2.2 else False),
                      "mix": S(n.mixing_model), "bulk": N(n.bulk_coeff or 0.0),
                      # the fraction belongs to the two-compartment model only (the format has no place for it otherwise)
                      "mixfrac": N((n.mixing_fraction or 0.0) if getattr(n.mixing_model, "name", "") in ("Mix2", "TwoComp") else 0.0)})
        else:
            d.update({"head": N(n.base_head), "pat": S(n.head_pattern_name)})
        nodes[name] = Dt(d)
    for name, l in wn.links():
        d = {"type": S(l.link_type), "a": S(l.start_node_name), "b": S(l.end_node_name), "tag": S(l.tag),
             "status": S(str(l.initial_status)), "verts": L([L([N(x), N(y)]) for x, y in l.vertices])}
        if l.link_type == "Pipe":
            if l.check_valve:          # the [PIPES] status column holds Open | Closed | CV: a CV pipe has no initial status
                d["status"] = S("CV")
            d.update({"len": N(l.length), "diam": N(l.diameter), "rough": N(l.roughness), "minor": N(l.minor_loss), "cv": S(bool(l.check_valve)),
                      "bulk": N(l.bulk_coeff or 0.0), "wall": N(l.wall_coeff or 0.0)})
        elif l.link_type == "Pump":
            d.update({"ptype": S(l.pump_type), "curve": S(getattr(l, "pump_curve_name", "")), "power": N(getattr(l, "power", 0.0) or 0.0),
                      "speed": N(l.base_speed), "spat": S(l.speed_pattern_name), "eprice": N(l.energy_price or 0.0)})
        else:
            d.update({"vtype": S(l.valve_type), "diam": N(l.diameter), "minor": N(l.minor_loss),
                      "setting": N(l.initial_setting) if l.valve_type != "GPV" else S(l.headloss_curve_name)})
        links[name] = Dt(d)
    used_curves = set()
    for _, l in wn.links():
        if getattr(l, "pump_curve_name", None):
            used_curves.add(l.pump_curve_name)
    for _, n in wn.tanks():
        if n.vol_curve_name:
            used_curves.add(n.vol_curve_name)
    curves = {name: Dt({"type": S(c.curve_type), "pts": L([L([N(x), N(y)]) for x, y in c.points])})
              for name, c in wn.curves() if name in used_curves}
    patterns = {name: L([N(m) for m in p.multipliers]) for name, p in wn.patterns() if len(p.multipliers) > 0}
    o = wn.options
    t, h, q, e, r = o.time, o.hydraulic, o.quality, o.energy, o.reaction
    opts = {"duration": N(t.duration), "hstep": N(t.hydraulic_timestep), "qstep": N(t.quality_timestep), "rstep": N(t.rule_timestep),
            "pstep": N(t.pattern_timestep), "pstart": N(t.pattern_start), "repstep": N(t.report_timestep), "repstart": N(t.report_start),
            "clock": N(t.start_clocktime), "stat": S(t.statistic),
            "headloss": S(h.headloss), "viscosity": N(h.viscosity), "sg": N(h.specific_gravity), "trials": N(h.trials),
            "accuracy": N(h.accuracy), "unbalanced": S(h.unbalanced), "pattern": P(h.pattern), "dmult": N(h.demand_multiplier),
            "emitexp": N(h.emitter_exponent),
            "qparam": S(q.parameter), "qtrace": S(q.trace_node), "diffus": N(q.diffusivity), "qtol": N(q.tolerance),
            "eprice": N(e.global_price or 0.0), "eeff": N(e.global_efficiency if e.global_efficiency is not None else 75.0),
            "epat": S(e.global_pattern), "dcharge": N(e.demand_charge or 0.0),
            "bulk_order": N(r.bulk_order), "wall_order": N(r.wall_order), "tank_order": N(r.tank_order), "bulk_coeff": N(r.bulk_coeff),
            "wall_coeff": N(r.wall_coeff), "limpot": N(r.limiting_potential or 0.0), "rough_corr": N(r.roughness_correl or 0.0)}
    if version >= 2.2:
        pdd = str(h.demand_model).upper() in ("PDD", "PDA")
        opts["dmodel"] = S("PDD" if pdd else "DD")
        if pdd:          # written with 2 decimals in psi / m: compared as integers of 1/50 file units is too strict; round
            opts.update({"pmin": N(round(h.minimum_pressure, 1)), "preq": N(round(h.required_pressure, 1)), "pexp": N(h.pressure_exponent)})
    ctl, rules = [], []
    for name, c in wn.controls():
        tree = Dt({"cond": cond_tree(c.condition), "then": L([action_tree(a) for a in c._then_actions]),
                   "else": L([action_tree(a) for a in (c._else_actions or [])]), "prio": N(int(c.priority))})
        # simple controls have no names in the file: ordered by their (normalised) content
        if type(c).__name__ == "Rule":
            rules.append((str(c), tree))
        else:
            # simple controls have no names in the file: ordered by their (normalised, rounded) content
            cd = c.condition
            thr = getattr(cd, "_threshold", 0.0)
            src = getattr(cd, "_source_obj", None)
            if src is not None and getattr(src, "node_type", "") in ("Tank", "Junction") and cd._source_attr == "head":
                thr -= src.elevation
            a = c._then_actions[0]
            ctl.append((json.dumps([type(cd).__name__, getattr(src, "name", ""), str(getattr(cd, "_relation", "")), round(float(thr), 2),
                                    a._target_obj.name, str(a._attribute), str(a._value)]), tree))
    srcs = sorted(((s.node_name, str(s.source_type), float(s.strength_timeseries.base_value), s.strength_timeseries.pattern_name or "")
                   for _, s in wn.sources()))
    return Dt({"nodes": Dt(nodes), "links": Dt(links), "curves": Dt(curves), "patterns": Dt(patterns), "options": Dt(opts),
               "controls": L([t for _, t in sorted(ctl, key=lambda x: x[0])]),
               "rules": L([t for _, t in sorted(rules, key=lambda x: x[0])]),
               "sources": L([Dt({"node": S(a), "type": S(b), "q": N(c), "pat": S(d)}) for a, b, c, d in srcs])})


def norm_text(path):
    secs, cur = [], None
    for line in open(path, errors="replace"):
        line = line.rstrip()
        if line.startswith(";") or not line.strip():
            continue
        line = re.sub(r"\s+", " ", line.strip())
        if line.startswith("["):
            cur = [line]
            secs.append(cur)
        elif cur is not None and not line.upper().startswith("PATTERN "):
            # numbers printed with all 17 digits may flip their last ulp in a unit round trip: compare 12 digits
            toks = []
            for tok in line.split(" "):
                try:
                    toks.append("%.12g" % float(tok) if re.match(r"^[-+]?(\d+\.\d*|\.\d+|\d+)([eE][-+]?\d+)?$", tok) and len(tok) > 13 else tok)
                except ValueError:
                    toks.append(tok)
            cur.append(" ".join(toks))
    out = []
    for sec in secs:
        body = sec[1:] if sec[0] in ("[PATTERNS]", "[CURVES]", "[RULES]", "[VERTICES]") else sorted(sec[1:])
        out += [sec[0]] + body
    return out


def decorate(w, wn, s, rnd):
    c13.decorate(w, wn, s, rnd)
    C = w.network.controls
    o = wn.options
    o.time.report_timestep = rnd.choice([s["H"], 2 * s["H"]])
    o.time.report_start = rnd.choice([0, s["H"]])
    o.time.start_clocktime = rnd.choice([0, 3600, 7 * 3600 + 1800])
    o.time.rule_timestep = rnd.choice([360, 600, 900])
    o.time.quality_timestep = rnd.choice([300, 360])
    o.hydraulic.trials = rnd.choice([40, 100])
    o.hydraulic.accuracy = rnd.choice([0.001, 0.0001])
    o.hydraulic.emitter_exponent = rnd.choice([0.5, 0.6])
    o.hydraulic.viscosity = rnd.choice([1.0, 1.1])
    o.quality.parameter = rnd.choice(["NONE", "CHEMICAL", "AGE"])
    if o.quality.parameter == "CHEMICAL" and rnd.random() < 0.5:
        o.quality.inpfile_units = "ug/L"          # concentrations, source strengths and reaction coefficients in micrograms
    o.quality.diffusivity = rnd.choice([1.0, 1.2])
    o.quality.tolerance = rnd.choice([0.01, 0.02])
    o.energy.global_price = rnd.choice([0.0, 0.12])
    o.energy.global_efficiency = rnd.choice([75.0, 65.0])
    o.energy.demand_charge = rnd.choice([0.0, 1.5])
    # bulk reactions of order 1 (per day in the file) or 2 (written as they are); tanks have their own order
    o.reaction.bulk_order = rnd.choice([1, 1, 2])
    o.reaction.tank_order = rnd.choice([1, 1, 2])
    bulk_day = 86400.0 if o.reaction.bulk_order == 1 else 1.0
    o.reaction.bulk_coeff = rnd.choice([0.0, -1.0 / bulk_day])
    o.reaction.wall_coeff = rnd.choice([0.0, -0.5 / 86400.0])
    # wall reactions of order 0 (mass/area/time) or 1 (length/time), also per pipe: the order applies to every coefficient of
    # the [REACTIONS] section wherever its ORDER line stands.  Values are chosen printable at %.4f in both unit families.
    o.reaction.wall_order = rnd.choice([1, 1, 0])
    if o.reaction.wall_order == 0:
        o.reaction.wall_coeff = rnd.choice([0.0, -500e-6 / 86400.0])
    for l in s["links"]:
        if l["type"] == "pipe" and rnd.random() < 0.25:
            wn.get_link(l["name"]).wall_coeff = (-3.048 / 86400.0) if o.reaction.wall_order == 1 else (-800e-6 / 86400.0)
        if l["type"] == "pipe" and rnd.random() < 0.15:
            wn.get_link(l["name"]).bulk_coeff = -0.75 / bulk_day
    for l in s["links"]:          # controls on valve settings and pump status
        link = wn.get_link(l["name"])
        if l["type"] in ("PRV", "PSV", "FCV", "TCV") and rnd.random() < 0.7:
            wn.add_control("cset_" + l["name"], C.Control(C.SimTimeCondition(wn, "=", 3 * 3600), C.ControlAction(link, "setting", l["setting"] * 0.5)))
            js = [n["name"] for n in s["nodes"] if n["type"] == "J"]
            wn.add_control("rset_" + l["name"], C.Rule(C.ValueCondition(wn.get_node(js[0]), "pressure", "<", 25.0),
                                                        [C.ControlAction(link, "setting", l["setting"] * 1.5)], priority=2))
    js = [n["name"] for n in s["nodes"] if n["type"] == "J"]
    pipes = [l["name"] for l in s["links"] if l["type"] == "pipe"]
    if pipes and rnd.random() < 0.8:          # simple controls conditioned on a junction pressure / a tank level
        wn.add_control("cprs", C.Control(C.ValueCondition(wn.get_node(rnd.choice(js)), "pressure", rnd.choice(["<", ">"]), rnd.choice([12.5, 20.0, 35.0])),
                                         C.ControlAction(wn.get_link(rnd.choice(pipes)), "status", w.network.LinkStatus.Closed)))
    tanks = [n for n in s["nodes"] if n["type"] == "T"]
    if tanks and pipes and rnd.random() < 0.5:        # a simple control on the HEAD of a tank
        t = rnd.choice(tanks)
        wn.add_control("chead", C.Control(C.ValueCondition(wn.get_node(t["name"]), "head", ">", t["elev"] + t["maxl"] - 1.0),
                                          C.ControlAction(wn.get_link(rnd.choice(pipes)), "status", w.network.LinkStatus.Closed)))
    if js and pipes and rnd.random() < 0.3:           # ... and on the HEAD of a junction ([CONTROLS] knows its pressure only)
        jn = rnd.choice([n for n in s["nodes"] if n["type"] == "J"])
        wn.add_control("jhead", C.Control(C.ValueCondition(wn.get_node(jn["name"]), "head", "<", jn["elev"] + 17.5),
                                          C.ControlAction(wn.get_link(rnd.choice(pipes)), "status", w.network.LinkStatus.Closed)))
    for n in s["nodes"]:
        if n["type"] == "J" and len(n["dem"]) == 1 and rnd.random() < 0.4:
            wn.get_node(n["name"]).demand_timeseries_list[0].category = "single"     # one demand that carries a category
        if n["type"] == "J" and rnd.random() < 0.3:
            wn.get_node(n["name"]).emitter_coefficient = rnd.choice([0.0001, 0.0005])
        if n["type"] == "T":
            tk = wn.get_node(n["name"])
            if rnd.random() < 0.3:
                tk.overflow = True
            if rnd.random() < 0.3:
                tk.bulk_coeff = -0.2 / (86400.0 if o.reaction.bulk_order == 1 else 1.0)


def one(job):
    sid, seed, unit, version = job
    w = common.import_wntr()
    rnd = random.Random(seed)
    s = netgen.gen(rnd, sid)
    for n in s["nodes"]:              # WNTR-only settings are outside the statement
        if n.get("leak"):
            n["leak"]["on"] = False
        if n.get("has_pdd"):
            n["has_pdd"] = False
    # [CONTROLS] has no place for the priority of a simple control (every control read from a file has the default 3)
    s["ctl"], s["rules"] = [dict(c, prio=3) for c in s["ctl"]], []
    for n in s["nodes"]:              # a volume curve that ends exactly at the tank's maximum level
        if n["type"] == "T" and n["vcurve"] and rnd.random() < 0.5:
            below = [p for p in n["vcurve"] if p[0] < n["maxl"]]
            if len(below) >= 2:
                n["vcurve"] = below + [[n["maxl"], below[-1][1] + 40.0]]
    out = {"seed": seed, "unit": unit, "version": version, "features": sorted(netgen.features_of(s))}
    d = tempfile.mkdtemp(prefix="c12_", dir=common.scratch())
    try:
        wn = simnet.build(w, s)
        decorate(w, wn, s, rnd)
        wn.options.time.report_timestep = s["H"]
        p0 = project(wn, version)
        f1, f2 = os.path.join(d, "a.inp"), os.path.join(d, "b.inp")
        w.network.write_inpfile(wn, f1, units=unit, version=version)
        wn1 = w.network.read_inpfile(f1)
        if wn1.options.quality.parameter == "CHEMICAL" and rnd.random() < 0.5:
            # the user switches the chemical's mass unit of a model that was read from a file: values stay what they are
            wn1.options.quality.inpfile_units = "mg/L" if "ug" in str(wn1.options.quality.inpfile_units).lower() else "ug/L"
            out["flipped"] = True       # the second file states another mass unit: its text differs, its model must not
        p1 = project(wn1, version)
        w.network.write_inpfile(wn1, f2, units=unit, version=version)
        wn2 = w.network.read_inpfile(f2)
        p2 = project(wn2, version)
        out.update({"p0": p0, "p1": p1, "p2": p2, "t1": norm_text(f1), "t2": norm_text(f2)})
    except Exception as e:
        import traceback
        out["exc"] = "%s: %s" % (type(e).__name__, str(e)[:140])
        out["where"] = traceback.format_exc().strip().splitlines()[-3][:120]
    finally:
        import shutil
        shutil.rmtree(d, ignore_errors=True)
    return out


def main(tier, replay):
    ck = common.Check("C12", "translation_validation", tier)
    rnd = random.Random(common.SEED + 1212)
    if replay:
        d = common.load_replay(replay)["detail"]
        jobs = [(1, d["seed"], d["unit"], d["version"])]
    else:
        jobs = []
        n = 40 if tier == "quick" else 600
        for i in range(n):
            seed = common.SEED * 65537 + i
            us = UNITS if tier == "thorough" else rnd.sample(UNITS, 3)
            for u in us:
                for ver in ((2.2, 2.0) if tier == "thorough" or i % 4 == 0 else (2.2,)):
                    jobs.append((i + 1, seed, u, ver))
    with cf.ProcessPoolExecutor(max_workers=common.NCPU) as ex:
        outs = list(ex.map(one, jobs, chunksize=2))
    eq, same, meq, msame = [], [], [], []
    for o in outs:
        if "exc" in o:
            ck.violation("C12.roundtrip_failed", "%s :: %s" % (re.sub(r"[-+]?\d+\.?\d*(e[-+]?\d+)?", "#", o["exc"]), o.get("where", "")),
                         {"seed": o["seed"], "unit": o["unit"], "version": o["version"], "exc": o["exc"]})
            continue
        eq.append({"x": o["p0"], "y": o["p1"], "atol": num(1e-9), "rtol": num(2e-5), "prefix": "C12"})
        meq.append(o)
        if o.get("flipped"):
            # another mass unit prints other digits: the second cycle is compared up to print precision instead of exactly
            eq.append({"x": o["p1"], "y": o["p2"], "atol": num(1e-9), "rtol": num(2e-5), "prefix": "C12"})
            meq.append(o)
        else:
            same.append({"clause": "C12.idempotent_model", "x": o["p1"], "y": o["p2"]})
            msame.append(o)
        if not o.get("flipped"):
            same.append({"clause": "C12.idempotent_text", "x": o["t1"], "y": o["t2"]})
            msame.append(o)
        ck.count("programs")
        ck.count("unit_" + o["unit"])
        ck.nontrivial([o["seed"], o["unit"], o["version"]])
    for gi, payload in common.run_cases("Equiv", eq, check=ck):
        o = meq[gi]
        for cl in common.parse_set(payload):
            ck.violation(cl, "%s :: unit_family=%s version=%s" % (cl, "US" if o["unit"] in UNITS[:5] else "metric", o["version"]),
                         {"seed": o["seed"], "unit": o["unit"], "version": o["version"]})
    for gi, payload in common.run_cases("Same", same, check=ck):
        o = msame[gi]
        for cl in common.parse_set(payload):
            ck.violation(cl, "%s :: unit_family=%s version=%s" % (cl, "US" if o["unit"] in UNITS[:5] else "metric", o["version"]),
                         {"seed": o["seed"], "unit": o["unit"], "version": o["version"]})
    ck.cov["programs"] = ck.cov["counters"].get("programs", 0)
    ck.cov["disagreements_checked"] = len(eq) + len(same)
    ck.cov["evaluations"] = len(eq) + len(same)
    ck.cov["rule"] = ("subjects = (random API-built model, flow unit, INP version): netgen models decorated with tags, vertices, quality, "
                      "sources, option values, controls and rules on status and setting; 3 random units per model in the quick tier "
                      "(all ten and both versions in the thorough tier); distinct by (model seed, unit, version)")
    if meq:
        ck.sample({"unit": meq[0]["unit"], "version": meq[0]["version"], "features": meq[0]["features"], "inp_lines": meq[0]["t1"][:12]})
    if not replay and eq:
        bad = copy.deepcopy(eq[0])
        k = sorted(bad["y"]["v"]["links"]["v"])[0]
        bad["y"]["v"]["links"]["v"][k]["v"]["diam"]["v"] = num(float(common.unnum(bad["y"]["v"]["links"]["v"][k]["v"]["diam"]["v"])) * 1.001)
        if not common.run_cases("Equiv", [bad], nproc=1):
            raise common.MachineryError("binding self-test: 0.1 % diameter error accepted")
    ck.assumptions += ["numbers compared at 2e-5 relative (the section writers print >= 6 significant digits in file units); "
                       "strings, structure, names exactly", "out of scope as in the property: leaks, per-junction PDD parameters, "
                       "pattern interpolation, empty patterns, unreferenced curves; sources compared without names"]
    return ck.finish()

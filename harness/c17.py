"""C17 - EPANET unit conversions: exact inverses with the right physical constants.
M: TLC checks the lemmas of spec/Units.tla on the complete table.
T: every (flow unit x parameter x mass unit x reaction order x darcy flag) row is exercised on the real
   to_si/from_si with scalars, lists, arrays and dicts; TLC (UnitsTrace) decides every clause and that
   the recorded rows cover the complete table of the specification."""
import copy
import random
import common
from common import num


def record_cases(w, xs):
    import numpy as np
    U = w.epanet.util
    cases = []
    for fu in U.FlowUnits:
        rows = []
        for p in U.HydParam:
            for dw in (False, True):
                rows.append(("hyd", p, U.MassUnits.mg, 0, dw))
        for p in U.QualParam:
            for mu in U.MassUnits:
                for order in (0, 1, 2):
                    rows.append(("qual", p, mu, order, False))
        for kind, p, mu, order, dw in rows:
            kw = dict(mass_units=mu, darcy_weisbach=dw, reaction_order=order)
            to = [U.to_si(fu, x, p, **kw) for x in xs]
            fr = [U.from_si(fu, x, p, **kw) for x in xs]
            rt = [U.from_si(fu, U.to_si(fu, x, p, **kw), p, **kw) for x in xs]
            a, b = 1.25, 3.5
            lin = {"ta": num(U.to_si(fu, a, p, **kw)), "tb": num(U.to_si(fu, b, p, **kw)),
                   "tsum": num(U.to_si(fu, a + b, p, **kw)),
                   "fa": num(U.from_si(fu, a, p, **kw)), "fb": num(U.from_si(fu, b, p, **kw)),
                   "fsum": num(U.from_si(fu, a + b, p, **kw))}
            cont = []
            keys = ["k%d" % j for j in range(len(xs))]
            for d, fn in (("to", U.to_si), ("from", U.from_si)):
                for tname, mk in (("list", lambda: list(xs)), ("ndarray", lambda: np.array(xs)),
                                  ("dict", lambda: dict(zip(keys, xs)))):
                    data = mk()
                    rec = {"dir": d, "tin": tname, "tout": "", "kin": keys if tname == "dict" else [],
                           "kout": [], "vals": [], "exc": ""}
                    try:
                        out = fn(fu, data, p, **kw)
                        rec["tout"] = type(out).__name__
                        if isinstance(out, dict):
                            rec["kout"] = [str(k) for k in out.keys()]
                            rec["vals"] = [num(v) for v in out.values()]
                        else:
                            rec["vals"] = [num(v) for v in list(out)]
                    except Exception as e:   # documented contract: must not raise
                        rec["exc"] = "%s: %s" % (type(e).__name__, str(e)[:80])
                    cont.append(rec)
            cases.append({"kind": kind, "fu": fu.name, "param": p.name, "mass": mu.name, "order": order,
                          "dw": dw, "xs": [num(x) for x in xs], "to": [num(v) for v in to],
                          "from": [num(v) for v in fr], "rt": [num(v) for v in rt], "lin": lin,
                          "cont": cont, "trad": bool(fu.is_traditional), "metric": bool(fu.is_metric)})
    return cases


def sig(c):
    return "%s/%s/%s/mass=%s/order=%d/dw=%s" % (c["kind"], c["fu"], c["param"], c["mass"], c["order"], c["dw"])


def main(tier, replay):
    ck = common.Check("C17", "model_checking", tier)
    w = common.import_wntr()
    # --- M: lemmas on the table
    r = common.run_tlc("MCUnits", "SPECIFICATION MCSpec\nINVARIANT Lemmas\n", workers=1)
    if r.violation:
        raise common.MachineryError("Units.tla lemma violated:\n" + r.out[-2000:])
    ck.add_tlc(r)
    rnd = random.Random(common.SEED)
    xs = [0.0, 1.0, -2.5, 1234.5678, 1e-7, 3.0e8]
    if tier == "thorough":
        xs += [float("%.9g" % (rnd.uniform(-1, 1) * 10 ** rnd.randint(-9, 9))) for _ in range(24)]
    cases = record_cases(w, xs)
    if replay:
        want = common.load_replay(replay)["sig"].split(" ")[0]
        cases = [c for c in cases if sig(c) == want]
    verdicts = common.run_cases("UnitsTrace", cases, check=ck, nproc=8)
    if not replay:
        keys = [{k: c[k] for k in ("kind", "fu", "param", "mass", "order", "dw")} for c in cases]
        for _, payload in common.run_cases("UnitsCover", [keys], check=ck, nproc=1, wrap=False):
            for clause in common.parse_set(payload):
                ck.violation(clause, "table", {"rows": len(keys)})
    for gi, payload in verdicts:
        c = cases[gi]
        for clause in common.parse_set(payload):
            detail = ""
            if clause == "C17.container":
                detail = " " + ";".join(sorted({"%s/%s:%s" % (t["dir"], t["tin"], t["exc"] or "mismatch")
                                                for t in c["cont"]
                                                if t["exc"] or t["tin"] != t["tout"]}))
            ck.violation(clause, sig(c) + detail, c)
    ck.cov["evaluations"] = len(cases) * len(xs) * 9
    ck.cov["traces_validated_against_impl"] = len(cases)
    for c in cases:
        ck.nontrivial(sig(c))
    ck.cov["exhaustive"] = True
    ck.cov["rule"] = ("one case per row of the complete table FlowUnits x (HydParam x darcy flag + QualParam x "
                      "MassUnits x reaction order 0..2); each case calls to_si/from_si on %d values as scalar, "
                      "list, ndarray and dict; every row is distinct; TLC checks Rows \\subseteq recorded rows" % len(xs))
    ck.sample({k: cases[17][k] for k in ("kind", "fu", "param", "mass", "order", "dw")} |
              {"xs": xs[:4], "to_si": [float(common.unnum(v)) for v in cases[17]["to"][:4]]})
    ck.assumptions += ["constants compared at the precision WNTR documents: 1e-8 relative (1e-6 for the ft2 area "
                       "constant 0.092903)", "DataFrame inputs are not asserted (not in the documented contract)"]
    # --- binding self-test: a perturbed factor / broken container / wrong family must be rejected
    bad = []
    for k, mut in enumerate(("to", "from", "rt", "cont", "fam")):
        c = copy.deepcopy(cases[(37 * (k + 1)) % len(cases)])
        if mut in ("to", "from", "rt"):
            v = float(common.unnum(c[mut][3]))
            c[mut][3] = num(v * (1 + 3e-6) if mut != "rt" else v * (1 + 1e-9))
        elif mut == "cont":
            c["cont"][2]["kout"] = list(reversed(c["cont"][2]["kout"]))
        else:
            c["trad"] = not c["trad"]
        bad.append(c)
    vb = common.run_cases("UnitsTrace", bad, nproc=1)
    if {gi for gi, _ in vb} != set(range(len(bad))):
        raise common.MachineryError("binding self-test: corrupted records were accepted: %r" % (vb,))
    ck.count("selftest_rejected", len(bad))
    return ck.finish()

"""C04 - time-based controls and rules act exactly at their configured instants.
M: TLC runs the algorithmic model of run_sim (WntrSim.tla) on every scenario and checks that it refines
   the declarative semantics (Controls.tla).
R: TLC emits the expected observable timeline of every scenario; the real WNTRSimulator is run on the same
   scenario (3 controlled pipes) and its reported times / statuses must be the ones the spec allows."""
import itertools
import json
import os
import random
import concurrent.futures as cf
import common

THR = [0, 1, 3600, 4999, 5400, 7200, 9000, 16200, 41400, 86399, 90000]


def atom(t, rel, thr):
    return {"op": "atom", "t": t, "rel": rel, "thr": thr}


def options_grid():
    for H in (3600, 5400):
        for Rs in (360, 900, 1000, 2400, H):
            for Rep in (0, H):
                for Start in (0, 3600, 23400, 82800):
                    for Dur in (86400, 194400):
                        yield {"H": H, "Rs": Rs, "Rep": Rep, "Start": Start, "Dur": Dur}


def s1_bodies():
    """scope S1: exactly one simple control or one rule on link 1 (link 2 is a bystander)."""
    for kind in ("sim", "clock"):
        for thr in THR:
            if kind == "clock" and thr >= 86400:
                continue
            for rep in ((0, 21600, 86400) if kind == "sim" else (0,)):
                yield {"init": [1, 1], "ctl": [{"kind": kind, "thr": thr, "rep": rep, "link": 1, "val": 0, "prio": 3}],
                       "rules": []}
    close1, open1 = [{"link": 1, "val": 0}], [{"link": 1, "val": 1}]
    for t in ("sim", "clock"):
        for thr in THR:
            if t == "clock" and thr >= 86400:
                continue
            for rel in ("=", ">=", "<=", ">", "<"):
                for els in ([], open1):
                    if rel == "=" and els:
                        continue
                    yield {"init": [1, 1], "ctl": [],
                           "rules": [{"cond": atom(t, rel, thr), "then": close1, "else": els, "prio": 3}]}
        # range conditions lo <= time <= hi with ELSE
        for lo, hi in ((4500, 12000), (3600, 7200), (7200, 15300), (1, 86399), (41400, 90000)):
            if t == "clock" and hi >= 86400:
                continue
            for rl, rh in ((">=", "<="), (">", "<")):
                c = {"op": "and", "a": atom(t, rl, lo), "b": atom(t, rh, hi)}
                yield {"init": [1, 1], "ctl": [], "rules": [{"cond": c, "then": close1, "else": open1, "prio": 3}]}


def s1b_bodies():
    """scope S1b: two or three simple controls inside ONE hydraulic step on the same link, incl. controls whose action
    changes nothing (firing without effect must not disturb the timing of the following ones)"""
    inst = [900, 1800, 2700, 3240, 4500]
    for i, t1 in enumerate(inst):
        for t2 in inst[i + 1:]:
            for v1 in (0, 1):
                for v2 in (0, 1):
                    for init in (0, 1):
                        for kind in ("sim", "clock"):
                            yield {"init": [init, 1],
                                   "ctl": [{"kind": kind, "thr": t1, "rep": 0, "link": 1, "val": v1, "prio": 3},
                                           {"kind": "sim", "thr": t2, "rep": 0, "link": 1, "val": v2, "prio": 3}],
                                   "rules": []}


def s2_random(rnd, n):
    """scope S2: up to 3 controls / rules over 2 links, priorities from 3 levels, same-instant conflicts."""
    opts = list(options_grid())
    out = []
    while len(out) < n:
        o = dict(rnd.choice(opts))
        ctl, rules = [], []
        shared = rnd.sample(THR[:9], 3)
        for _ in range(rnd.randint(0, 3)):
            kind = rnd.choice(("sim", "sim", "clock"))
            thr = rnd.choice(shared + THR[:10]) if kind == "clock" else rnd.choice(shared + THR)
            ctl.append({"kind": kind, "thr": thr, "rep": rnd.choice((0, 0, 21600, 86400)) if kind == "sim" else 0,
                        "link": rnd.randint(1, 2), "val": rnd.randint(0, 1), "prio": rnd.randint(1, 3)})
        for _ in range(rnd.randint(0, 2) if ctl else rnd.randint(1, 3)):
            def ratom():
                t = rnd.choice(("sim", "clock"))
                return atom(t, rnd.choice(("=", ">=", "<=", ">", "<", ">=", "<=")),
                            rnd.choice(shared + (THR[:10] if t == "clock" else THR)))
            c = ratom()
            if rnd.random() < 0.5:
                c = {"op": rnd.choice(("and", "and", "or")), "a": c, "b": ratom()}
            link = rnd.randint(1, 2)
            v = rnd.randint(0, 1)
            then = [{"link": link, "val": v}]
            if rnd.random() < 0.25:
                then.append({"link": 3 - link, "val": rnd.randint(0, 1)})
            els = [{"link": link, "val": 1 - v}] if rnd.random() < 0.5 else []
            rules.append({"cond": c, "then": then, "else": els, "prio": rnd.randint(1, 3)})
        o.update({"init": [rnd.randint(0, 1), rnd.randint(0, 1)], "ctl": ctl, "rules": rules})
        out.append(o)
    return out


def expected_from_spec(scns, ck, liveness=False):
    """TLC: run WntrSim on each scenario, check Refines, emit the expected timelines."""
    for s in scns:
        s.setdefault("pauses", [])
        s.setdefault("failAt", 0)
        s.setdefault("convErr", False)
    parts = common.chunks(scns, common.NCPU)
    cfg = ("SPECIFICATION %s\nINVARIANT Emit\nINVARIANT FailStop\nPROPERTY NeverBackwards\nPROPERTY DefinitionUnchanged\n%s"
           "CHECK_DEADLOCK FALSE\n" % ("FairSpec" if liveness else "Spec", "PROPERTY Terminates\n" if liveness else ""))

    def one(part):
        wd = common.subdir("c04_%d" % part[0]["id"])
        p = os.path.join(wd, "scn.json")
        with open(p, "w") as f:
            json.dump(part, f)
        r = common.run_tlc("WntrSim", cfg, workers=1, env={"SCN": p, "EMIT": "1"}, workdir=wd)
        if r.violation:
            raise common.MachineryError("WntrSim property violated:\n" + r.out[-3000:])
        return r
    exp = {}
    with cf.ThreadPoolExecutor(max_workers=common.NCPU) as ex:
        for r in ex.map(one, parts):
            ck.add_tlc(r)
            for tag, obj in r.prints:
                if tag == "CASE":
                    exp[obj["id"]] = obj
    if len(exp) != len(scns):
        raise common.MachineryError("TLC emitted %d timelines for %d scenarios" % (len(exp), len(scns)))
    return exp


def observe(scn):
    """run the real simulator; returns {'times': [...], 'st': [[..]..]} or {'exc': ...}"""
    import simnet
    w = common.import_wntr()
    try:
        wn = simnet.time_family_network(w, scn)
        n = len(scn["init"])
        times, st, err = [], [], False
        # a schedule may be run in parts (duration reached, run_sim called again with a new simulator): instants and rule
        # grid must come out the same
        for d in list(scn.get("pauses", [])) + [scn["Dur"]]:
            wn.options.time.duration = d
            res, _ = simnet.run_wntr(w, wn)
            df = res.link["status"]
            times += [int(t) for t in df.index]
            st += [[int(df["P%d" % k].iloc[i]) for k in range(1, n + 1)] for i in range(len(df.index))]
            err = err or res.error_code is not None
        return {"id": scn["id"], "times": times, "st": st, "err": err}
    except Exception as e:
        return {"id": scn["id"], "exc": "%s: %s" % (type(e).__name__, str(e)[:200])}


def status_at(e, init, t):
    cur = init
    for ev in e["tl"]:
        if ev["t"] > t:
            break
        cur = ev["st"]
    return list(cur)


def compare(scn, e, o):
    """returns list of (clause, detail)"""
    if "exc" in o:
        return [("C04.run", o["exc"])]
    if o["err"]:
        return [("C04.run", "error_code set")]
    rep = scn["Rep"]
    on = (lambda t: True) if not rep else (lambda t: t % rep == 0)
    req = [t for t in e["req"] if on(t)]
    alw = set(t for t in e["alw"] if on(t))
    T = o["times"]
    out = []
    miss = [t for t in req if t not in set(T)]
    if miss:
        out.append(("C04.partial_step", "no reported step at %s" % miss[:4]))
    extra = [t for t in T if t not in alw]
    if extra:
        out.append(("C04.partial_step", "unexpected reported times %s" % extra[:4]))
    if any(b <= a for a, b in zip(T, T[1:])):
        out.append(("C04.timeline", "times not increasing"))
    for t, stv in zip(T, o["st"]):
        want = status_at(e, scn["init"], t)
        if want != stv:
            out.append(("C04.timeline", "t=%d reported %s expected %s" % (t, stv, want)))
            break
    return out


def shape(scn):
    """signature used for distinctness / known findings: structure without the option grid"""
    def cs(c):
        if c["op"] == "atom":
            return "%s%s%d" % (c["t"], c["rel"], c["thr"])
        return "(%s %s %s)" % (cs(c["a"]), c["op"], cs(c["b"]))
    parts = ["%s@%d/%d" % (c["kind"], c["thr"], c["rep"]) for c in scn["ctl"]]
    parts += ["rule[%s]%s" % (cs(r["cond"]), "+else" if r["else"] else "") for r in scn["rules"]]
    return "H=%d Rs=%d Rep=%d Start=%d Dur=%d :: %s" % (scn["H"], scn["Rs"], scn["Rep"], scn["Start"], scn["Dur"],
                                                         " ; ".join(parts))


def eq_preempted(scn, times):
    """does some rule atom 'TIME = th' / 'CLOCKTIME = th' evaluate differently under WNTR's reading (th in (previous
    SOLVE, e]) than under EPANET's (th in (e - rule step, e]) at some rule instant e, given the accepted solve times?"""
    T = sorted(set(times))
    Rs = scn["Rs"]

    def atoms(c):
        return [c] if c["op"] == "atom" else atoms(c["a"]) + atoms(c["b"])
    import bisect
    for r in scn["rules"]:
        for a in atoms(r["cond"]):
            if a["rel"] != "=":
                continue
            if a["t"] == "sim":
                inst = [a["thr"]]
            else:
                f = (a["thr"] - scn["Start"]) % 86400
                inst = list(range(f, scn["Dur"] + 1, 86400))
            for e in range(Rs, scn["Dur"] + 1, Rs):
                i = bisect.bisect_left(T, e)
                prev = T[i - 1] if i > 0 else -1
                ep = any(e - Rs < th <= e for th in inst)
                wn = any(prev < th <= e for th in inst)
                if ep != wn:
                    return True
    return False


def kinds(scn):
    k = set()
    for c in scn["ctl"]:
        k.add("ctl-" + c["kind"] + ("-repeat" if c["rep"] else ""))

    def walk(c):
        if c["op"] == "atom":
            k.add("rule-%s-%s" % (c["t"], c["rel"]))
        else:
            walk(c["a"]); walk(c["b"])
    for r in scn["rules"]:
        walk(r["cond"])
    return k


def text_family(ck, rnd, n):
    """the ways an instant can be WRITTEN: clock times as EPANET text ('12:30 PM', '7:05'; ClockTable.tla gives the instant
    each text denotes) and simulation-time conditions split into first_time + threshold.  The scenario carries the instant
    (judged by the specification) and, in Python-only keys, the text / split the real condition is built from."""
    r = common.run_tlc("ClockTable", "SPECIFICATION Spec\nINVARIANT Emit\nINVARIANT InRange\n", workers=1)
    ck.add_tlc(r)
    table = [row for tag, obj in r.prints if tag == "CLOCK" for row in obj]
    if len(table) < 100:
        raise common.MachineryError("ClockTable.tla printed %d rows" % len(table))
    opts = [o for o in options_grid() if o["Dur"] == 194400 and o["Rs"] in (900, o["H"])]
    out = []
    rnd.shuffle(table)
    for i in range(n):
        o = dict(rnd.choice(opts))
        if i % 4 != 3:
            row = table[i % len(table)]
            text = ("%d:%02d" % (row["h"], row["m"])) + ((" " + row["ap"]) if row["ap"] else "")
            if rnd.random() < 0.5:
                body = {"init": [1, 1], "rules": [],
                        "ctl": [{"kind": "clock", "thr": row["sec"], "rep": 0, "link": 1, "val": 0, "prio": 3, "text": text}]}
                if rnd.random() < 0.5:
                    body["ctl"][0]["fd"] = rnd.choice([1, 1, 2])       # first_day: no firing before that clock day
                    ck.count("first_day_scenarios")
            else:
                body = {"init": [1, 1], "ctl": [],
                        "rules": [{"cond": dict(atom("clock", rnd.choice([">=", "<"]), row["sec"]), text=text),
                                   "then": [{"link": 1, "val": 0}], "else": [{"link": 1, "val": 1}], "prio": 3}]}
            ck.count("clock_text_scenarios")
        else:
            first = rnd.choice([1800, 3600, 5400, 18000])
            thr = first + rnd.choice([0, 900, 7200, 10000])
            body = {"init": [1, 1], "rules": [],
                    "ctl": [{"kind": "sim", "thr": thr, "rep": rnd.choice([0, 0, 21600]), "link": 1, "val": 0, "prio": 3, "first": first}]}
            ck.count("first_time_scenarios")
        o.update(body)
        out.append(o)
    return out


def main(tier, replay):
    ck = common.Check("C04", "model_checking", tier)
    rnd = random.Random(common.SEED)
    if replay:
        scns = [common.load_replay(replay)["detail"]["scn"]]
    else:
        s1 = []
        for o in options_grid():
            for b in s1_bodies():
                s = dict(o); s.update(b); s1.append(s)
        s1b = []
        for o in options_grid():
            if o["Dur"] != 86400:
                continue
            for b in s1b_bodies():
                s = dict(o); s.update(b)
                if b["ctl"][0]["kind"] == "clock":       # clock threshold chosen so that the instant is thr after the start
                    s["ctl"] = [dict(b["ctl"][0], thr=(b["ctl"][0]["thr"] + o["Start"]) % 86400), b["ctl"][1]]
                s1b.append(s)
        if tier == "quick":
            rnd.shuffle(s1)
            rnd.shuffle(s1b)
            s1 = s1[:1000] + s1b[:400]
            s2 = s2_random(rnd, 700)
        else:
            s1 = s1 + s1b
            s2 = s2_random(rnd, 30000)
        scns = s1 + s2 + text_family(ck, rnd, 144 if tier == "quick" else 1500)
        ck.cov["exhaustive"] = (tier == "thorough")
    for i, s in enumerate(scns):
        s["id"] = i + 1
        s.setdefault("pauses", [])
        if not replay and i % 8 == 3 and not s["pauses"]:
            grid = list(range(0, s["Dur"], s["H"]))
            s["pauses"] = sorted(rnd.sample(grid[:12], 1))           # run in two parts
    exp = expected_from_spec(scns, ck)
    det = [s for s in scns if exp[s["id"]]["det"]]
    ck.count("scenarios", len(scns))
    ck.count("determinate", len(det))
    # M: the algorithm refines the declarative semantics on every determinate scenario
    for s in det:
        if not exp[s["id"]]["ok"]:
            tag = " [eq-atom window differs]" if eq_preempted(s, exp[s["id"]]["mt"]) else ""
            ck.violation("C04.model_refines", shape(s) + tag, {"scn": s, "expected": exp[s["id"]]})
    with cf.ProcessPoolExecutor(max_workers=common.NCPU) as ex:
        obs = list(ex.map(observe, det, chunksize=16))
    kinds_seen = {}
    for s, o in zip(det, obs):
        e = exp[s["id"]]
        for clause, detail in compare(s, e, o):
            # solve times: the reported ones plus the model's (partial steps are invisible on a report grid)
            tag = " [eq-atom window differs]" if eq_preempted(s, sorted(set(o.get("times", [])) | set(e["mt"]))) else ""
            ck.violation(clause, shape(s) + tag + " :: " + detail, {"scn": s, "expected": e, "observed": o})
        ck.nontrivial(shape(s))
        for k in kinds(s):
            kinds_seen[k] = kinds_seen.get(k, 0) + 1
        if any(ev["t"] % s["H"] for ev in e["tl"] if ev["t"] in set(e["req"])):
            ck.count("scenarios_with_partial_step")
    ck.cov["counters"]["condition_kinds"] = kinds_seen
    ck.cov["evaluations"] = len(det)
    ck.cov["traces_validated_against_impl"] = len(det)
    ck.cov["rule"] = ("scope S1 = every single control / rule body x option grid (H, rule step, report step, start "
                      "clocktime, duration); scope S2 = seeded random sets of <=3 controls and <=3 rules over 2 links with "
                      "shared thresholds and 3 priority levels; a scenario is non-trivial when determinate (no outcome the "
                      "property leaves open); distinct by its full structure")
    if det:
        s = det[0]
        ck.sample({"scenario": s, "expected_required_times": exp[s["id"]]["req"][:12], "observed_times": obs[0].get("times", [])[:12]})
    ck.assumptions += ["the hydraulic solve is irrelevant to time-only schedules (time family)",
                       "outcomes the property leaves open (equal-priority conflicts, rule vs control on one link at one "
                       "instant, '=' with ELSE, strict clock relations on their boundary) are excluded by Controls!Determinate"]
    # binding self-test: a perturbed expectation must be rejected by the comparison
    if det and not replay:
        s, o = det[0], obs[0]
        o2 = dict(o, times=o["times"][:-1], st=o["st"][:-1])          # drop the last reported row
        o3 = dict(o, st=[[1 - x for x in o["st"][0]]] + o["st"][1:])  # flip the first reported statuses
        if "exc" in o or not compare(s, exp[s["id"]], o2) or not compare(s, exp[s["id"]], o3):
            raise common.MachineryError("binding self-test: corrupted observation accepted")
    return ck.finish()

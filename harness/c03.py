"""C03 - WNTRSimulator and EpanetSimulator agree on models both support (translation validation).
Subjects: (model, flow unit) pairs on the common feature set.  Programs under comparison:
  W = WNTRSimulator(model);  E_u = EpanetSimulator(model written in unit u, EPANET 2.2, binary output read back);
  T_u = EPANET toolkit run directly on the INP text written in unit u (values converted to SI with the spec's own
        constants, Units.tla) vs R_u = read_inpfile(text) -> EpanetSimulator.
TLC (Agree.tla) decides  W ~ E_u  (agreement, for every selected unit u: covers unit independence) and  T_u ~ R_u
(the reader gives what EPANET itself computes for the file), on the report grid."""
import concurrent.futures as cf
import copy
import os
import random
import shutil
import tempfile
import common
import netgen
import simnet

UNITS = ["CFS", "GPM", "MGD", "IMGD", "AFD", "LPS", "LPM", "MLD", "CMH", "CMD"]
# independent unit constants (Units.tla): flow factor to m3/s; traditional units use ft / psi
FLOW = {"CFS": 0.3048 ** 3, "GPM": 3.785411784e-3 / 60, "MGD": 3785.411784 / 86400, "IMGD": 4546.09 / 86400,
        "AFD": 43560 * 0.3048 ** 3 / 86400, "LPS": 1e-3, "LPM": 1e-3 / 60, "MLD": 1000.0 / 86400, "CMH": 1 / 3600.0, "CMD": 1 / 86400.0}
US = set(UNITS[:5])


def common_scenario(rnd, sid):
    """a model inside the common feature set, well conditioned: sources well above demands, large tanks, head pumps on
    the working part of their curve, time controls on pipes; no CV pipes, no valves, no leaks, global PDD only"""
    s = netgen.gen(rnd, sid, mode=rnd.choice(["DD", "DD", "PDD"]), features={"tanks", "patterns", "parallel", "minor", "controls"})
    s["all"] = False
    s["hw"] = "default"
    s["Rs"] = 360
    for n in s["nodes"]:
        if n["type"] == "T":
            n["diam"] = netgen.rgrid(rnd, 25, 40, 5)
            n["vcurve"] = []
            n["minl"], n["maxl"], n["init"] = 0.0, 30.0, netgen.rgrid(rnd, 8, 20, 1)
        if n["type"] == "J":
            n["has_pdd"] = False
    for l in s["links"]:
        l["init"] = 1
    if rnd.random() < 0.5:
        js = [n["name"] for n in s["nodes"] if n["type"] == "J"]
        s["nodes"].append({"name": "RP", "type": "R", "elev": 0.0, "head": netgen.rgrid(rnd, 20, 40, 5), "pat": ""})
        fam = netgen.pump_family(rnd, rnd.choice([1, 3]))
        fam["A"] = fam["A"] + 40.0 if len(fam["curve"]) > 1 else fam["A"]
        if len(fam["curve"]) > 1:
            fam["curve"] = [[q, h + 40.0] for q, h in fam["curve"]]
        d = {"name": "PU%d" % len(s["links"]), "type": "headpump", "a": "RP", "b": rnd.choice(js), "init": 1}
        d.update(fam)
        s["links"].append(d)
    # control instants on the report grid; the INP file has no place for the priority of a simple control
    s["ctl"] = [dict(c, prio=3) for c in s["ctl"] if c["thr"] % s["H"] == 0][:2]
    if rnd.random() < 0.5:        # a throttle control valve between two junctions whose setting is changed during the run
        js = [n["name"] for n in s["nodes"] if n["type"] == "J"]
        a, b = rnd.sample(js, 2)
        nm = "V%d" % len(s["links"])
        s["links"].append({"name": nm, "type": "TCV", "a": a, "b": b, "diam": rnd.choice([0.2, 0.3]), "minor": 0.0,
                           "setting": netgen.rgrid(rnd, 5, 50, 5), "init": 2})
        s["sctl"] = [{"thr": s["H"] * rnd.randint(1, 3), "link": nm, "val": netgen.rgrid(rnd, 100, 900, 50)}]
    if rnd.random() < 0.5:
        # a reservoir whose head follows a pattern (shifted, like every pattern, by pattern_start)
        s["patterns"]["HP"] = [rnd.choice([0.9, 0.95, 1.0, 1.05, 1.1]) for _ in range(rnd.randint(3, 5))]
        rnd.choice([n for n in s["nodes"] if n["type"] == "R" and n["name"] != "RP"])["pat"] = "HP"
        if rnd.random() < 0.7:
            s["PatStart"] = s["Pat"] * rnd.randint(1, 3)
    if rnd.random() < 0.4:
        # twin mains of opposite orientation to a dead-end junction; the forward one is closed for part of the run, so the
        # junction is supplied only through the main drawn the other way round
        import c02
        js = [n["name"] for n in s["nodes"] if n["type"] == "J"]
        h = rnd.choice(js)
        s["nodes"].append(c02.junction("JT", netgen.rgrid(rnd, 0, 10, 2.5), [{"base": netgen.rgrid(rnd, 0.002, 0.006, 0.001), "pat": ""}]))
        for nm, a, b in (("M1", h, "JT"), ("M2", "JT", h)):
            s["links"].append({"name": nm, "type": "pipe", "a": a, "b": b, "len": netgen.rgrid(rnd, 100, 400, 50), "diam": 0.3,
                               "rough": 100.0, "minor": 0.0, "cv": False, "init": 1})
        k = next(i + 1 for i, l in enumerate(s["links"]) if l["name"] == "M1")
        t0 = s["H"] * rnd.randint(0, 2)
        s["ctl"].append({"kind": "sim", "thr": t0, "rep": 0, "link": k, "val": 0, "prio": 3})
        if rnd.random() < 0.5:
            s["ctl"].append({"kind": "sim", "thr": t0 + 2 * s["H"], "rep": 0, "link": k, "val": 1, "prio": 3})
    return s


def limit_scenario(rnd, sid):
    """a small tank that is filled to its maximum level (through a pump or a pipe that ends at the tank) while demand is
    low and drained towards its minimum when demand is high: both engines must shut the tank in and re-open it alike"""
    import c02
    s = c02.base(sid, "default")
    H = 3600
    s["H"], s["Pat"], s["PatStart"], s["Rs"], s["all"] = H, H, 0, 360, False
    nlow = rnd.randint(4, 6)
    s["patterns"] = {"dem": [0.2] * nlow + [rnd.choice([2.5, 3.0])] * rnd.randint(5, 7)}
    s["Dur"] = H * (len(s["patterns"]["dem"]) - 1)
    maxl = netgen.rgrid(rnd, 4, 6, 0.5)
    s["nodes"] = [{"name": "R0", "type": "R", "elev": 0.0, "head": netgen.rgrid(rnd, 8, 12, 1), "pat": ""},
                  {"name": "T0", "type": "T", "elev": 20.0, "minl": 0.5, "maxl": maxl, "init": netgen.rgrid(rnd, 2, 3, 0.5),
                   "diam": netgen.rgrid(rnd, 16, 24, 2), "vcurve": [], "leak": {"on": False, "area": 0.0, "cd": 0.75, "start": -1, "end": -1}},
                  c02.junction("J0", 8.0, []), c02.junction("J1", 5.0, [{"base": 0.02, "pat": "dem"}]),
                  c02.junction("J2", 4.0, [{"base": 0.01, "pat": "dem"}])]

    def pipe(name, a, b, L, d):
        return {"name": name, "type": "pipe", "a": a, "b": b, "len": L, "diam": d, "rough": 110.0, "minor": 0.0, "cv": False, "init": 1}
    fam = netgen.pump_family(rnd, 1)
    fam.update({"A": 4 * 30.0 / 3, "B": 30.0 / (3 * 0.05 * 0.05), "curve": [[0.05, 30.0]]})
    pump = {"name": "PU", "type": "headpump", "a": "J0", "b": "T0", "init": 1}
    pump.update(fam)
    s["links"] = [pipe("P0", "R0", "J0", 50.0, 0.4), pump, pipe("P1", "T0", "J1", 300.0, 0.3), pipe("P2", "J1", "J2", 200.0, 0.25)]
    return s


def psv_scenario(rnd, sid):
    """a pressure-sustaining (or -reducing) valve between junctions of DIFFERENT elevation whose status changes during the run
    (open while demand is low, active when the upstream pressure would fall below / the downstream pressure rise above its
    setting): both engines must switch it alike and hold the setting at the right node"""
    import c02
    s = c02.base(sid, "default")
    H = 3600
    s["H"], s["Pat"], s["PatStart"], s["Rs"], s["all"] = H, H, 0, 360, False
    s["patterns"] = {"dem": [0.2] * rnd.randint(1, 2) + [3.0] * rnd.randint(2, 3) + [0.2]}
    s["Dur"] = H * (len(s["patterns"]["dem"]) - 1)
    e1, e2 = rnd.choice([(10.0, 0.0), (0.0, 10.0), (7.5, 2.5)])
    s["nodes"] = [{"name": "R0", "type": "R", "elev": 0.0, "head": 50.0, "pat": ""},
                  {"name": "T0", "type": "T", "elev": 0.0, "minl": 0.0, "maxl": 20.0, "init": 5.0, "diam": 40.0, "vcurve": [],
                   "leak": {"on": False, "area": 0.0, "cd": 0.75, "start": -1, "end": -1}},
                  c02.junction("J1", e1, [{"base": netgen.rgrid(rnd, 0.035, 0.05, 0.005), "pat": "dem"}]), c02.junction("J2", e2, [])]

    def pipe(name, a, b, L, d):
        return {"name": name, "type": "pipe", "a": a, "b": b, "len": L, "diam": d, "rough": 100.0, "minor": 0.0, "cv": False, "init": 1}
    s["links"] = [pipe("P1", "R0", "J1", 1000.0, 0.3),
                  {"name": "V1", "type": "PSV", "a": "J1", "b": "J2", "diam": 0.3, "minor": 0.0, "setting": netgen.rgrid(rnd, 17.5, 25, 2.5), "init": 2},
                  pipe("P2", "J2", "T0", 2000.0, 0.15)]
    return s


def times_with_units(inp, rnd):
    """rewrite the H:MM:SS values of [TIMES] as a number followed by a unit word; returns the path of the new file"""
    import re
    out, sec = [], ""
    for line in open(inp).read().splitlines():
        if line.startswith("["):
            sec = line.strip()
        m = re.match(r"^(DURATION|HYDRAULIC TIMESTEP|PATTERN TIMESTEP|REPORT TIMESTEP|RULE TIMESTEP)\s+(\d+):(\d+):(\d+)\s*$", line) if sec == "[TIMES]" else None
        if m:
            t = int(m.group(2)) * 3600 + int(m.group(3)) * 60 + int(m.group(4))
            forms = ["%d SEC" % t, "%d SECONDS" % t]
            if t % 60 == 0:
                forms += ["%d MIN" % (t // 60), "%d MINUTES" % (t // 60)]
            if t % 1800 == 0:
                forms += ["%g HOURS" % (t / 3600.0), "%g" % (t / 3600.0)]
            line = "%-20s %s" % (m.group(1), rnd.choice(forms))
        out.append(line)
    p = inp[:-4] + "_units.inp"
    open(p, "w").write("\n".join(out) + "\n")
    return p


def table(s, res, names_n, names_l):
    rows = []
    for i, t in enumerate(res.node["head"].index):
        num = {}
        for n in names_n:
            num["h_" + n] = float(res.node["head"][n].iloc[i])
            num["p_" + n] = float(res.node["pressure"][n].iloc[i])
            num["d_" + n] = float(res.node["demand"][n].iloc[i])
        for l in names_l:
            num["q_" + l] = float(res.link["flowrate"][l].iloc[i])
        rows.append({"t": int(t), "num": {k: common.num(v) for k, v in num.items()},
                     "st": {l: (1 if int(res.link["status"][l].iloc[i]) != 0 else 0) for l in names_l}})
    return rows


def toolkit_run(w, inp, unit, names_n, names_l, d):
    """EPANET toolkit directly on the INP text; values converted to SI with independent constants"""
    from wntr.epanet.toolkit import ENepanet
    from wntr.epanet.util import EN
    en = ENepanet()
    en.ENopen(inp, os.path.join(d, "tk.rpt"), os.path.join(d, "tk.bin"))
    ft = 0.3048 if unit in US else 1.0
    psi = 0.3048 / 0.4333 if unit in US else 1.0
    fl = FLOW[unit]
    rows = []
    en.ENopenH()
    en.ENinitH(0)
    rep = en.ENgettimeparam(EN.REPORTSTEP)
    ni = {n: en.ENgetnodeindex(n) for n in names_n}
    li = {l: en.ENgetlinkindex(l) for l in names_l}
    while True:
        t = en.ENrunH()
        if t % rep == 0:
            num = {}
            for n, k in ni.items():
                num["h_" + n] = en.ENgetnodevalue(k, EN.HEAD) * ft
                num["p_" + n] = en.ENgetnodevalue(k, EN.PRESSURE) * psi
                num["d_" + n] = en.ENgetnodevalue(k, EN.DEMAND) * fl
            for l, k in li.items():
                num["q_" + l] = en.ENgetlinkvalue(k, EN.FLOW) * fl
            rows.append({"t": int(t), "num": {k: common.num(float(v)) for k, v in num.items()},
                         "st": {l: (1 if en.ENgetlinkvalue(k, EN.STATUS) != 0 else 0) for l, k in li.items()}})
        if en.ENnextH() <= 0:
            break
    en.ENcloseH()
    en.ENclose()
    return rows


def one(job):
    sid, seed, units = job
    w = common.import_wntr()
    rnd = random.Random(seed)
    s = limit_scenario(rnd, sid) if sid % 6 == 5 else psv_scenario(rnd, sid) if sid % 6 == 3 else common_scenario(rnd, sid)
    names_n = [n["name"] for n in s["nodes"]]
    names_l = [l["name"] for l in s["links"]]
    out = {"seed": seed, "features": sorted(netgen.features_of(s)), "cases": [],
           "pat_lt_h": s["Pat"] < s["H"] and bool(s["patterns"]) and any(n["type"] == "T" for n in s["nodes"])}
    d = tempfile.mkdtemp(prefix="c03_", dir=common.scratch())
    try:
        wn = simnet.build(w, s)
        wn.options.hydraulic.accuracy = 1e-5      # dimensionless (HEADERROR / FLOWCHANGE are in file units: left alone)
        wn.options.hydraulic.trials = 200
        rw, _ = simnet.run_wntr(w, wn)
        if rw.error_code is not None:
            return out
        W = table(s, rw, names_n, names_l)
        pumps = [l["name"] for l in s["links"] if l["type"] in ("headpump", "powerpump")]
        out["pump_reverse"] = any(float(rw.link["flowrate"][p].iloc[i]) < -2.83168e-6 and int(rw.link["status"][p].iloc[i]) != 0
                                  for p in pumps for i in range(len(rw.link["flowrate"].index)))
        # skip subjects in which a junction is cut off from every source at some report step (EPANET cannot solve those)
        import c09
        hrows = simnet.rows_of(s, rw)
        if any(c09.isolation_stats(s, hrows)):
            out["skipped"] = "isolation"
            return out
        keys = {"numkeys": sorted(W[0]["num"]), "stkeys": sorted(W[0]["st"]), "boundary": [], "clause2": "C03.report_index",
                "clause3": "C03.report_index"}
        # a rule on a junction pressure that never fires: its threshold is 1/1.6 of the lowest pressure that junction has in
        # the whole run, so neither engine may act on it, whatever unit system the threshold is written in
        js = [n["name"] for n in s["nodes"] if n["type"] == "J"]
        pipes = [l["name"] for l in s["links"] if l["type"] == "pipe"]
        jr = rnd.choice(js)
        pm = min(float(rw.node["pressure"][jr].iloc[i]) for i in range(len(rw.node["pressure"].index)))
        if pm > 2.0 and pipes and sid % 2 == 0:
            C = w.network.controls
            wn.add_control("never", C.Rule(C.ValueCondition(wn.get_node(jr), "pressure", "<", pm / 1.6),
                                           [C.ControlAction(wn.get_link(rnd.choice(pipes)), "status", w.network.LinkStatus.Closed)], name="never"))
            out["never_rule"] = True
        for u in units:
            wn.reset_initial_values()
            inp = os.path.join(d, "m_%s.inp" % u)
            w.network.write_inpfile(wn, inp, units=u, version=2.2)
            sim = w.sim.EpanetSimulator(wn)
            wn.options.hydraulic.inpfile_units = u
            re_ = sim.run_sim(file_prefix=os.path.join(d, "e_%s" % u), version=2.2)
            E = table(s, re_, names_n, names_l)
            if sid % 6 == 5:
                # a tank that sits at a limit for several report steps is shut in and re-opened over and over; EPANET re-opens at
                # the next hydraulic step, WNTR within seconds: levels drift apart by decimetres although both respect the
                # limits (recorded as a known finding; a WNTR level outside the limits is never excused)
                tk = next(n for n in s["nodes"] if n["type"] == "T")
                le = [float(common.unnum(r["num"]["p_" + tk["name"]])) for r in E]
                lw = [float(common.unnum(r["num"]["p_" + tk["name"]])) for r in W]
                out["limit_cycling"] = (sum(1 for x in le if abs(x - tk["maxl"]) < 0.1 or abs(x - tk["minl"]) < 0.1) >= 3 and
                                        all(tk["minl"] - 0.05 <= x <= tk["maxl"] + 0.05 for x in lw))
                # tank-limit subjects: the engines shut a full / empty tank in and re-open it by different event logic (EPANET
                # inserts exact fill times, WNTR whole seconds and a head tolerance), which moves levels by centimetres:
                # heads and pressures are compared at 0.1 m (a tank that is not shut in at all is off by metres)
                hp = [k for k in keys["numkeys"] if k[:2] in ("h_", "p_")]
                out["cases"].append(("agree", u, dict(keys, numkeys=hp, clause="C03.agree_values", a=W, b=E, atol=common.num(0.1),
                                                      rtol=common.num(2e-3), qsmall=common.num(1e-3))))
            else:
                out["cases"].append(("agree", u, dict(keys, clause="C03.agree_values", a=W, b=E, atol=common.num(2e-2), rtol=common.num(2e-3),
                                                      qsmall=common.num(1e-4))))
            # reader validation: toolkit on the text vs read_inpfile -> EpanetSimulator
            if sid % 3 == 0:
                inp = times_with_units(inp, rnd)      # [TIMES] written the other ways EPANET accepts: '30 MIN', '3600 SEC', '1.5 HOURS'
            T = toolkit_run(w, inp, u, names_n, names_l, d)
            wn_r = w.network.read_inpfile(inp)
            rr = w.sim.EpanetSimulator(wn_r).run_sim(file_prefix=os.path.join(d, "r_%s" % u), version=2.2)
            R = table(s, rr, names_n, names_l)
            out["cases"].append(("reader", u, dict(keys, clause="C03.reader_faithful", a=T, b=R, atol=common.num(2e-3), rtol=common.num(2e-4),
                                                   qsmall=common.num(1e-5))))
    except Exception as e:
        import traceback
        out["exc"] = "%s: %s" % (type(e).__name__, str(e)[:120])
        out["where"] = traceback.format_exc().strip().splitlines()[-3][:140]
    finally:
        shutil.rmtree(d, ignore_errors=True)
    return out


def main(tier, replay):
    ck = common.Check("C03", "translation_validation", tier)
    rnd = random.Random(common.SEED + 303)
    if replay:
        d = common.load_replay(replay)["detail"]
        jobs = [(1, d["seed"], [d["unit"]])]
    else:
        n = 48 if tier == "quick" else 1000
        jobs = [(i + 1, common.SEED * 9973 + i, UNITS if (tier == "thorough" or i % 12 == 0) else rnd.sample(UNITS, 2)) for i in range(n)]
    # one fresh process per subject: the EPANET library keeps a global project per process
    with cf.ProcessPoolExecutor(max_workers=common.NCPU, max_tasks_per_child=1) as ex:
        outs = list(ex.map(one, jobs, chunksize=1))
    cases, meta = [], []
    for o in outs:
        if "exc" in o:
            ck.count("raised")
            ck.violation("C03.run", "%s :: %s" % (o["exc"][:60], o.get("where", "")), {"seed": o["seed"], "unit": "?"})
            continue
        if o.get("skipped"):
            ck.count("skipped_" + o["skipped"])
            continue
        if not o["cases"]:
            ck.count("not_converged")
            continue
        ck.count("programs")
        for kind, u, c in o["cases"]:
            ta, tb = [r["t"] for r in c["a"]], [r["t"] for r in c["b"]]
            if ta != tb:
                # different report times (e.g. a misread time option makes the run thousands of steps long): decided here, the
                # tables are not sent to TLC
                ck.violation("C03.report_index", "%s :: unit_family=%s :: report times differ: %d rows %s... vs %d rows %s..." % (
                    c["clause"], "US" if u in US else "metric", len(ta), ta[:3], len(tb), tb[:3]), {"seed": o["seed"], "unit": u})
                continue
            cases.append(c)
            meta.append((o, kind, u))
            ck.count("unit_" + u)
            ck.nontrivial([o["seed"], kind, u])
    for gi, payload in common.run_cases("Agree", cases, check=ck):
        o, kind, u = meta[gi]
        for cl in common.parse_set(payload):
            tag = " [pattern step < hydraulic step with tanks]" if o["pat_lt_h"] and kind == "agree" else ""
            if o.get("pump_reverse") and kind == "agree":
                tag += " [WNTR reports reverse flow through an open pump]"
            if o.get("limit_cycling") and kind == "agree":
                tag += " [tank cycling at a level limit, both engines inside the limits]"
            ck.violation(cl, "%s :: unit_family=%s%s" % (cl, "US" if u in US else "metric", tag), {"seed": o["seed"], "unit": u})
    ck.cov["programs"] = ck.cov["counters"].get("programs", 0)
    ck.cov["disagreements_checked"] = len(cases)
    ck.cov["evaluations"] = len(cases)
    ck.cov["rule"] = ("subjects = (random model on the common feature set, flow unit): reservoirs, large tanks, H-W pipes with minor loss, "
                      "parallel links, 1/3-point head pumps on the working part of the curve, patterns, multi-category demands, time "
                      "controls on the report grid, DD and global PDD; 2 random units per model (all ten for every 12th model; all "
                      "ten in the thorough tier); per subject W~E_u and T_u~R_u on every report step")
    if meta:
        ck.sample({"features": meta[0][0]["features"], "unit": meta[0][2], "kind": meta[0][1], "report_times": [r["t"] for r in cases[0]["a"]][:8]})
    if not replay and cases:
        bad = copy.deepcopy(cases[0])
        k = bad["numkeys"][0]
        bad["b"][0]["num"][k] = common.num(float(common.unnum(bad["b"][0]["num"][k])) * 1.01 + 0.1)
        if not common.run_cases("Agree", [bad], nproc=1):
            raise common.MachineryError("binding self-test: 1 % disagreement accepted")
        if ck.cov["programs"] < len(jobs) // 3:
            ck.vacuity("vacuity: too few comparable subjects (%d of %d)" % (ck.cov["programs"], len(jobs)))
    ck.assumptions += ["EPANET 2.2 shipped with WNTR is the reference; its convergence is tightened (ACCURACY 1e-5) and its binary output is single precision: agreement at 2e-2 + 2e-3 relative",
                       "subjects in which a junction is cut off from every source are skipped (EPANET cannot solve them); valves, CV "
                       "pipes, leaks, per-junction PDD and tank-level controls are outside the well-conditioned generator",
                       "the toolkit side of the reader check is converted to SI with the constants of Units.tla, not with WNTR's"]
    return ck.finish()

"""C18 - valve segmentation is exactly the partition induced by the valve layer.
R: TLC enumerates every multigraph (parallel links, dead ends, isolated nodes) and every valve layer (every subset of
   link-node incidences, optionally with a duplicated row) in scope from Segments.tla and emits the expected partition
   and valve attributes; the real valve_segments / valve_segment_attributes are compared label-independently."""
import concurrent.futures as cf
import warnings
import common


def run_case(c):
    """returns list of (clause, detail)"""
    w = common.import_wntr()
    import networkx as nx
    import pandas as pd
    nn = c["nn"]
    G = nx.MultiDiGraph()
    for n in range(1, nn + 1):
        G.add_node("n%d" % n)
    # the direction in which a link is drawn is irrelevant to the partition: every other link (by case and position) is
    # drawn the other way round, so that parallel links of opposite orientation occur
    flip = sum(a * 7 + b for a, b in c["links"]) + len(c["valves"])
    for i, (a, b) in enumerate(c["links"]):
        if (flip + i) % 2:
            a, b = b, a
        G.add_edge("n%d" % a, "n%d" % b, key="l%d" % (i + 1))
    rows = [{"node": "n%d" % n, "link": "l%d" % l} for n, l in c["valves"]]
    if c["dup"] and rows:
        rows.insert(1, dict(rows[0]))      # a duplicated row in the middle of the layer
    vl = pd.DataFrame(rows, columns=["node", "link"])
    out = []
    try:
        with warnings.catch_warnings():
            warnings.simplefilter("ignore")
            ns, ls, sizes = w.metrics.topographic.valve_segments(G, vl)
    except Exception as e:
        return [("C18.partition", "valve_segments raised %s: %s" % (type(e).__name__, str(e)[:80]))]
    lab = {}
    for n, s in ns.items():
        lab[("N", int(n[1:]))] = int(s)
    for l, s in ls.items():
        lab[("L", int(l[1:]))] = int(s)
    want = [set((v[0], int(v[1])) for v in p) for p in c["parts"]]
    allv = set().union(*want) if want else set()
    if set(lab) != allv:
        out.append(("C18.partition", "labelled elements %s differ from network elements" % sorted(set(lab) ^ allv)))
        return out
    if any(x <= 0 for x in lab.values()):
        out.append(("C18.positive_labels", "non-positive segment number"))
    got = {}
    for v, s in lab.items():
        got.setdefault(s, set()).add(v)
    if sorted(map(sorted, got.values())) != sorted(map(sorted, want)):
        out.append(("C18.partition", "segments %s expected %s" % (sorted(map(sorted, got.values())), sorted(map(sorted, want)))))
        return out
    for s, members in got.items():
        try:
            sn, sl = int(sizes.loc[s, "node"]), int(sizes.loc[s, "link"])
        except Exception:
            out.append(("C18.sizes", "segment %d missing from segment_size" % s))
            continue
        if sn != sum(1 for v in members if v[0] == "N") or sl != sum(1 for v in members if v[0] == "L"):
            out.append(("C18.sizes", "segment %d sizes (%d,%d) wrong" % (s, sn, sl)))
    if set(sizes.index) != set(got):
        out.append(("C18.sizes", "segment_size index differs from the labels in use"))
    if not rows:
        return out
    # attributes
    dem = pd.Series({"n%d" % n: float(n) for n in range(1, nn + 1)})
    length = pd.Series({"l%d" % (i + 1): 10.0 * (i + 1) for i in range(len(c["links"]))})
    try:
        with warnings.catch_warnings():
            warnings.simplefilter("ignore")
            at = w.metrics.topographic.valve_segment_attributes(vl, ns, ls, demand=dem, length=length)
    except Exception as e:
        out.append(("C18.attributes", "valve_segment_attributes raised %s: %s%s" % (type(e).__name__, str(e)[:60],
                                                                                " (duplicated valve row)" if c["dup"] else "")))
        return out
    exp = {(a["node"], a["link"]): a for a in c["attrs"]}
    seen = set()
    for idx in at.index:
        key = (int(vl.loc[idx, "node"][1:]), int(vl.loc[idx, "link"][1:]))
        seen.add(key)
        e = exp[key]
        if int(at.loc[idx, "num_surround"]) != e["surround"]:
            out.append(("C18.num_surround", "valve %s: %s expected %d" % (key, at.loc[idx, "num_surround"], e["surround"])))
        for col, k in (("demand_increase", "dem"), ("length_increase", "len")):
            want_v = e[k][0] / e[k][1]
            if abs(float(at.loc[idx, col]) - want_v) > 1e-9:
                out.append(("C18." + col, "valve %s: %s expected %s" % (key, at.loc[idx, col], want_v)))
    if seen != set(exp):
        out.append(("C18.attributes", "attributes reported for %d of %d distinct valves" % (len(seen), len(exp))))
    return out


def main(tier, replay):
    ck = common.Check("C18", "model_checking", tier)
    if replay:
        cases = [common.load_replay(replay)["detail"]["case"]]
    else:
        cases = []
        scopes = [(3, 3)] if tier == "quick" else [(3, 3), (4, 4)]
        for nn, ml in scopes:
            cfg = ("SPECIFICATION Spec\nINVARIANT IsPartition\nINVARIANT ValveSeparates\nINVARIANT Emit\nCHECK_DEADLOCK FALSE\n"
                   "CONSTANTS NNodes = %d\n MaxLinks = %d\n WithDuplicates = TRUE\n" % (nn, ml))
            r = common.run_tlc("Segments", cfg, workers=1, timeout=3000, jvm=["-Xmx6g"])
            if r.violation:
                ck.violation("C18.model", "Segments.tla lemma violated", {"tlc": r.out[-2000:]})
            ck.add_tlc(r)
            for tag, obj in r.prints:
                if tag == "CASE":
                    obj["nn"] = nn
                    cases.append(obj)
        ck.cov["exhaustive"] = True
    with cf.ProcessPoolExecutor(max_workers=common.NCPU) as ex:
        outs = list(ex.map(run_case, cases, chunksize=64))
    for c, o in zip(cases, outs):
        for clause, detail in o:
            sig = "%s :: %s" % (clause, "duplicated valve row" if c["dup"] and "raised" in detail else
                                "links=%d valves=%d" % (len(c["links"]), len(c["valves"])))
            ck.violation(clause, sig, {"case": c, "detail": detail})
        ck.nontrivial([c["links"], sorted(c["valves"]), c["dup"]])
        if c["valves"]:
            ck.count("cases_with_valves")
        if c["dup"]:
            ck.count("cases_with_duplicate_rows")
        if len(set(map(tuple, c["links"]))) < len(c["links"]):
            ck.count("cases_with_parallel_links")
    ck.cov["evaluations"] = len(cases)
    ck.cov["traces_validated_against_impl"] = len(cases)
    ck.cov["rule"] = ("every multigraph with <= N nodes and <= M links (parallel links, dead ends, isolated nodes; N,M = 3,3 quick; "
                      "4,4 thorough) x every subset of link-node incidences as valve layer x optional duplicated row, enumerated by "
                      "TLC from Segments.tla; all cases are distinct")
    if cases:
        c = cases[len(cases) // 2]
        ck.sample({"links": c["links"], "valves": c["valves"], "expected_partition": c["parts"]})
    if not replay:
        import copy
        bad = copy.deepcopy(next(c for c in cases if len(c["parts"]) > 1))
        bad["parts"] = [sum(bad["parts"][:2], [])] + bad["parts"][2:]
        if not run_case(bad):
            raise common.MachineryError("binding self-test: merged expected segments accepted")
    return ck.finish()

"""Builders for the small networks the simulator checks run on, and observation helpers."""
import common


def time_family_network(w, scn, n_links=None):
    """Reservoir R feeding junctions J1..Jn through controlled pipes P1..Pn (one per link of the
    scenario); junctions chained by always-open pipes so that closing a controlled pipe never
    isolates anything.  Controls/rules of the scenario are attached to P1..Pn."""
    n = n_links or len(scn["init"])
    wn = w.network.WaterNetworkModel()
    wn.add_reservoir("R", base_head=60.0)
    for k in range(1, n + 1):
        wn.add_junction("J%d" % k, base_demand=0.002 * k, elevation=5.0)
        wn.add_pipe("P%d" % k, "R", "J%d" % k, length=200.0, diameter=0.3, roughness=100,
                    initial_status="OPEN" if scn["init"][k - 1] else "CLOSED")
    wn.add_junction("JX", base_demand=0.001, elevation=4.0)
    wn.add_pipe("PX", "R", "JX", length=150.0, diameter=0.3, roughness=100)
    for k in range(1, n + 1):
        wn.add_pipe("C%d" % k, "JX", "J%d" % k, length=300.0, diameter=0.25, roughness=100)
    t = wn.options.time
    t.hydraulic_timestep = scn["H"]
    t.rule_timestep = scn["Rs"]
    t.pattern_timestep = scn["H"]
    t.report_timestep = scn["Rep"] if scn["Rep"] else "ALL"
    t.duration = scn["Dur"]
    t.start_clocktime = scn["Start"]
    attach_controls(w, wn, scn, lambda k: wn.get_link("P%d" % k))
    return wn


def _status(w, v):
    LS = w.network.LinkStatus
    return {0: LS.Closed, 1: LS.Open, 2: LS.Active}[int(v)]


def _cond(w, wn, c):
    C = w.network.controls
    if c["op"] == "atom":
        cls = C.SimTimeCondition if c["t"] == "sim" else C.TimeOfDayCondition
        return cls(wn, c["rel"], c["text"] if c.get("text") else int(c["thr"]))
    a, b = _cond(w, wn, c["a"]), _cond(w, wn, c["b"])
    return C.AndCondition(a, b) if c["op"] == "and" else C.OrCondition(a, b)


def attach_controls(w, wn, scn, link_of):
    C = w.network.controls
    for i, c in enumerate(scn["ctl"]):
        act = C.ControlAction(link_of(c["link"]), "status", _status(w, c["val"]))
        if c["kind"] == "sim":
            # the configured instant is first_time + threshold (first_time is "time 0 of the condition")
            first = int(c.get("first", 0))
            cond = C.SimTimeCondition(wn, "=", int(c["thr"]) - first, repeat=(c["rep"] if c["rep"] else False), first_time=first)
        else:
            cond = C.TimeOfDayCondition(wn, "=", c["text"] if c.get("text") else int(c["thr"]), first_day=int(c.get("fd", 0)))
        wn.add_control("ctl%d" % i, C.Control(cond, act, priority=c["prio"]))
    for i, r in enumerate(scn["rules"]):
        then = [C.ControlAction(link_of(a["link"]), "status", _status(w, a["val"])) for a in r["then"]]
        els = [C.ControlAction(link_of(a["link"]), "status", _status(w, a["val"])) for a in r["else"]]
        wn.add_control("rule%d" % i, C.Rule(_cond(w, wn, r["cond"]), then, els or None, priority=r["prio"]))


class RunHangs(Exception):
    """run_sim did not return within the wall-clock limit (it must always terminate, C16)"""


def run_wntr(w, wn, limit=180, sim=None, **kw):
    import signal
    import threading
    import warnings
    sim = sim or w.sim.WNTRSimulator(wn)
    use_alarm = threading.current_thread() is threading.main_thread()

    def on_alarm(signum, frame):
        raise RunHangs("run_sim still running after %d s" % limit)
    if use_alarm:
        old = signal.signal(signal.SIGALRM, on_alarm)
        signal.alarm(limit)
    try:
        with warnings.catch_warnings(record=True) as wlist:
            warnings.simplefilter("always")
            res = sim.run_sim(**kw)
    finally:
        if use_alarm:
            signal.alarm(0)
            signal.signal(signal.SIGALRM, old)
    return res, [str(x.message) for x in wlist]


# ------------------------------------------------------------------ general networks (netgen scenarios)
def build(w, s):
    """netgen scenario dict -> WaterNetworkModel through the public API"""
    wn = w.network.WaterNetworkModel()
    o = wn.options
    o.time.hydraulic_timestep = s["H"]
    o.time.pattern_timestep = s["Pat"]
    o.time.pattern_start = s["PatStart"]
    o.time.pattern_interpolation = bool(s.get("interp", False))
    o.time.report_timestep = "ALL" if s.get("all", True) else s.get("RepStep", s["H"])     # RepStep: a multiple of the hydraulic step
    o.time.rule_timestep = s.get("Rs", 360)
    o.time.duration = s["Dur"]
    o.time.start_clocktime = s.get("Start", 0)
    o.hydraulic.demand_multiplier = s["DM"]
    o.hydraulic.demand_model = s["mode"]
    if s.get("trials"):
        o.hydraulic.trials = int(s["trials"])
    o.hydraulic.minimum_pressure = s["pmin"]
    o.hydraulic.required_pressure = s["preq"]
    o.hydraulic.pressure_exponent = s["pexp"][0] / s["pexp"][1]
    for name, mult in s["patterns"].items():
        if name in s.get("nowrap", []):
            from wntr.network.elements import Pattern
            wn.add_pattern(name, Pattern(name, list(mult), time_options=wn.options.time, wrap=False))
        else:
            wn.add_pattern(name, list(mult))
    for n in s["nodes"]:
        if n["type"] == "R":
            wn.add_reservoir(n["name"], base_head=n["head"], head_pattern=n["pat"] or None)
        elif n["type"] == "T":
            vc = None
            if n["vcurve"]:
                vc = n["name"] + "_vol"
                wn.add_curve(vc, "VOLUME", [tuple(p) for p in n["vcurve"]])
            # "late_elev": the tank is created at another elevation, which is then corrected through the attribute
            # "late_diam" (scenario flag): a cylindrical tank is created wider and gets its diameter through the attribute after
            # every control exists
            wn.add_tank(n["name"], elevation=n["elev"] - (7.5 if n.get("late_elev") else 0.0), init_level=n["init"], min_level=n["minl"],
                        max_level=n["maxl"], diameter=n["diam"] * (1.5 if s.get("late_diam") and not vc else 1.0), min_vol=0.0, vol_curve=vc)
            if n.get("late_elev"):
                wn.get_node(n["name"]).elevation = n["elev"]
        else:
            d = n["dem"]
            wn.add_junction(n["name"], base_demand=d[0]["base"] if d else 0.0,
                            demand_pattern=(d[0]["pat"] or None) if d else None, elevation=n["elev"])
            j = wn.get_node(n["name"])
            if not d:
                del j.demand_timeseries_list[:]
            for k, e in enumerate(d[1:]):
                j.add_demand(e["base"], e["pat"] or None, category="cat%d" % (k + 1))
            if n.get("has_pdd"):
                j.minimum_pressure = n["pmin"]
                j.required_pressure = n["preq"]
                j.pressure_exponent = n["pexp"][0] / n["pexp"][1]
    st = {0: "CLOSED", 1: "OPEN", 2: "ACTIVE"}
    for l in s["links"]:
        t = l["type"]
        if t == "pipe":
            wn.add_pipe(l["name"], l["a"], l["b"], length=l["len"], diameter=l["diam"], roughness=l["rough"],
                        minor_loss=l["minor"], initial_status=st[l["init"]], check_valve=l["cv"])
        elif t == "headpump":
            cn = l["name"] + "_curve"
            wn.add_curve(cn, "HEAD", [tuple(p) for p in l["curve"]])
            wn.add_pump(l["name"], l["a"], l["b"], pump_type="HEAD", pump_parameter=cn, initial_status=st[l["init"]])
        elif t == "powerpump":
            wn.add_pump(l["name"], l["a"], l["b"], pump_type="POWER", pump_parameter=l["power"],
                        initial_status=st[l["init"]])
        else:
            wn.add_valve(l["name"], l["a"], l["b"], diameter=l["diam"], valve_type=t, minor_loss=l["minor"],
                         initial_setting=l["setting"], initial_status=st[l["init"]])
    for n in s["nodes"]:
        for k, pc in enumerate(n.get("pctl", [])):       # controls on a junction's required pressure
            C = w.network.controls
            wn.add_control("preq_%s_%d" % (n["name"], k), C.Control(C.SimTimeCondition(wn, "=", int(pc["thr"])),
                                                                   C.ControlAction(wn.get_node(n["name"]), "required_pressure", float(pc["val"]))))
    for n in s["nodes"]:
        lk = n.get("leak")
        if lk and lk["on"]:
            wn.get_node(n["name"]).add_leak(wn, area=lk["area"], discharge_coeff=lk["cd"],
                                            start_time=lk["start"] if lk["start"] >= 0 else None,
                                            end_time=lk["end"] if lk["end"] >= 0 else None)
    attach_controls(w, wn, s, lambda k: wn.get_link(s["links"][k - 1]["name"]))
    C = w.network.controls
    for i, c in enumerate(s.get("sctl", [])):       # time controls on a valve setting
        wn.add_control("sctl%d" % i, C.Control(C.SimTimeCondition(wn, "=", int(c["thr"])),
                                               C.ControlAction(wn.get_link(c["link"]), "setting", c["val"])))
    for i, c in enumerate(s.get("cctl", [])):
        link = wn.get_link(c["link"])
        if c["what"] == "status":
            act = C.ControlAction(link, "status", _status(w, c["val"]))
        else:
            act = C.ControlAction(link, "setting", c["val"])
        cond = C.ValueCondition(wn.get_node(c["node"]), c["attr"], c["rel"], c["thr"])
        wn.add_control("cctl%d" % i, C.Control(cond, act, priority=c["prio"]))
    if s.get("late_diam"):
        for n in s["nodes"]:
            if n["type"] == "T" and not n["vcurve"]:
                wn.get_node(n["name"]).diameter = n["diam"]
    return wn


def scenario_certs(s):
    """witnesses for the scenario-level rational powers (verified, not trusted, by the spec)"""
    for l in s["links"]:
        if l["type"] == "pipe":
            cpow = l["rough"] ** 1.852
            dpow = l["diam"] ** 4.871
            k = 10.667 * l["len"] / (cpow * dpow)
            l["cert"] = {"cpow": cpow, "dpow": dpow, "k": k, "sqrtk": k ** 0.5}
        elif l["type"] == "headpump":
            e = l["cp"] / l["cq"]
            l["cert"] = {"qpows": [p[0] ** e if p[0] > 0 else 0.0 for p in l["curve"]]}


def rows_of(s, res):
    """SimulationResults -> list of row dicts with per-row witnesses"""
    node, link = res.node, res.link
    rows = []
    times = [int(t) for t in node["head"].index]
    pdd = {n["name"]: n for n in s["nodes"] if n["type"] == "J"} if s["mode"] == "PDD" else {}
    for i, t in enumerate(times):
        r = {"t": t, "head": {}, "press": {}, "dem": {}, "leak": {}, "flow": {}, "status": {}, "setting": {}, "cert": {}}
        for n in s["nodes"]:
            nm = n["name"]
            r["head"][nm] = float(node["head"][nm].iloc[i])
            r["press"][nm] = float(node["pressure"][nm].iloc[i])
            r["dem"][nm] = float(node["demand"][nm].iloc[i])
            r["leak"][nm] = float(node["leak_demand"][nm].iloc[i])
            if nm in pdd:
                pmin, preq, pe = (n["pmin"], n["preq"], n["pexp"]) if n["has_pdd"] else (s["pmin"], s["preq"], s["pexp"])
                for pc in n.get("pctl", []):
                    if pc["thr"] <= t:
                        preq = pc["val"]
                x = (r["press"][nm] - pmin) / (preq - pmin)
                r["cert"][nm] = {"x": x if x > 0 else 0.0, "xpow": x ** (pe[0] / pe[1]) if x > 0 else 0.0}
        for l in s["links"]:
            nm = l["name"]
            q = float(link["flowrate"][nm].iloc[i])
            r["flow"][nm] = q
            r["status"][nm] = int(link["status"][nm].iloc[i])
            r["setting"][nm] = float(link["setting"][nm].iloc[i])
            if l["type"] == "pipe":
                r["cert"][nm] = {"qpow": abs(q) ** 1.852}
            elif l["type"] == "headpump":
                r["cert"][nm] = {"qpow": q ** (l["cp"] / l["cq"]) if q > 0 else 0.0}
        rows.append(r)
    return rows


def encode(x):
    """recursively turn floats into Dec.tla number records (ints, bools and strings stay)"""
    if isinstance(x, bool) or isinstance(x, int) or isinstance(x, str):
        return x
    if isinstance(x, float):
        return common.num(x)
    if isinstance(x, dict):
        return {k: encode(v) for k, v in x.items()}
    if isinstance(x, (list, tuple)):
        return [encode(v) for v in x]
    raise TypeError(type(x))


INT_KEYS = {"t", "H", "Pat", "PatStart", "Dur", "Rs", "Start", "Rep", "thr", "rep", "link", "val", "prio", "start", "end",
            "cp", "cq", "init", "id", "status"}


def encode_trace(s, rows, props):
    """scenario + rows -> JSON-able trace for ObsTrace.tla (floats as Dec records; integer-valued keys stay ints)"""
    def enc(x, key=None):
        if isinstance(x, bool) or isinstance(x, str):
            return x
        if isinstance(x, int):
            return x if key in INT_KEYS or key is None else common.num(x)
        if isinstance(x, float):
            return common.num(x)
        if isinstance(x, dict):
            if key == "status":
                return dict(x)
            return {k: enc(v, k) for k, v in x.items()}
        if isinstance(x, (list, tuple)):
            if key in ("pexp", "props"):
                return list(x)
            return [enc(v, key if key in ("init",) else "_") for v in x]
        raise TypeError(type(x))
    sc = enc({k: v for k, v in s.items() if k not in ("rules",)})
    sc["props"] = list(props)
    sc["interp"] = bool(s.get("interp", False))
    sc["nowrap"] = list(s.get("nowrap", []))
    for nd, raw in zip(sc["nodes"], s["nodes"]):
        if raw["type"] == "J":
            nd["pctl"] = [{"thr": int(pc["thr"]), "val": common.num(float(pc["val"]))} for pc in raw.get("pctl", [])]
    # TLC cannot read empty JSON objects as records reliably: make sure patterns has at least one key
    if not sc["patterns"]:
        sc["patterns"] = {"_none": []}
    return {"scn": sc, "rows": [enc(r) for r in rows]}

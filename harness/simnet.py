"""Builders for the small networks the simulator checks run on, and observation helpers."""
import common


def time_family_network(w, scn, n_links=None):
    """Reservoir R feeding junctions J1..Jn through controlled pipes P1..Pn (one per link of the
    scenario); junctions chained by always-open pipes so that closing a controlled pipe never
    isolates anything.  Controls/rules of the scenario are attached to P1..Pn."""
    n = n_links or len(scn["init"])
    wn = w.network.WaterNetworkModel()
    wn.add_reservoir("R", base_head=60.0)
    for k in range(1, n + 1):
        wn.add_junction("J%d" % k, base_demand=0.002 * k, elevation=5.0)
        wn.add_pipe("P%d" % k, "R", "J%d" % k, length=200.0, diameter=0.3, roughness=100,
                    initial_status="OPEN" if scn["init"][k - 1] else "CLOSED")
    wn.add_junction("JX", base_demand=0.001, elevation=4.0)
    wn.add_pipe("PX", "R", "JX", length=150.0, diameter=0.3, roughness=100)
    for k in range(1, n + 1):
        wn.add_pipe("C%d" % k, "JX", "J%d" % k, length=300.0, diameter=0.25, roughness=100)
    t = wn.options.time
    t.hydraulic_timestep = scn["H"]
    t.rule_timestep = scn["Rs"]
    t.pattern_timestep = scn["H"]
    t.report_timestep = scn["Rep"] if scn["Rep"] else "ALL"
    t.duration = scn["Dur"]
    t.start_clocktime = scn["Start"]
    attach_controls(w, wn, scn, lambda k: wn.get_link("P%d" % k))
    return wn


def _status(w, v):
    return w.network.LinkStatus.Open if v else w.network.LinkStatus.Closed


def _cond(w, wn, c):
    C = w.network.controls
    if c["op"] == "atom":
        cls = C.SimTimeCondition if c["t"] == "sim" else C.TimeOfDayCondition
        return cls(wn, c["rel"], int(c["thr"]))
    a, b = _cond(w, wn, c["a"]), _cond(w, wn, c["b"])
    return C.AndCondition(a, b) if c["op"] == "and" else C.OrCondition(a, b)


def attach_controls(w, wn, scn, link_of):
    C = w.network.controls
    for i, c in enumerate(scn["ctl"]):
        act = C.ControlAction(link_of(c["link"]), "status", _status(w, c["val"]))
        if c["kind"] == "sim":
            cond = C.SimTimeCondition(wn, "=", int(c["thr"]), repeat=(c["rep"] if c["rep"] else False))
        else:
            cond = C.TimeOfDayCondition(wn, "=", int(c["thr"]))
        wn.add_control("ctl%d" % i, C.Control(cond, act, priority=c["prio"]))
    for i, r in enumerate(scn["rules"]):
        then = [C.ControlAction(link_of(a["link"]), "status", _status(w, a["val"])) for a in r["then"]]
        els = [C.ControlAction(link_of(a["link"]), "status", _status(w, a["val"])) for a in r["else"]]
        wn.add_control("rule%d" % i, C.Rule(_cond(w, wn, r["cond"]), then, els or None, priority=r["prio"]))


def run_wntr(w, wn, **kw):
    import warnings
    sim = w.sim.WNTRSimulator(wn)
    with warnings.catch_warnings(record=True) as wlist:
        warnings.simplefilter("always")
        res = sim.run_sim(**kw)
    return res, [str(x.message) for x in wlist]

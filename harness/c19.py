"""C19 - pipe splitting, breaking and skeletonization keep what they promise to keep.
split/break: an exhaustive small grid (fractions 0, 1/4, 1/3, 1/2, 1; either end; CV / closed / minor loss; junction, tank
   or reservoir ends; 0-2 vertices on axis-parallel polylines) - before/after projections judged by TLC (Morph.tla), which
   computes lengths, junction elevation and coordinates itself in exact rationals; splitting must leave the hydraulics of
   the rest unchanged (rows compared by TLC, Agree.tla).
skeletonize: random networks x thresholds x option combinations x exclusion lists - (keep set, demand totals per time,
   map) judged by TLC."""
import concurrent.futures as cf
import copy
import itertools
import json
import random
import common
import netgen
import simnet
from c11 import canon

FRACTIONS = [(0, 1), (1, 4), (1, 3), (1, 2), (1, 1)]
POLYS = [[], [[30, 0]], [[30, 0], [30, 40]]]      # start (0,0) ... end (60,40) or (60,0)


def split_cases():
    sid = 0
    for kind in ("split", "break"):
        for f in FRACTIONS:
            for at_end in (True, False):
                for verts in POLYS:
                    for cv, closed, minor in ((False, False, 0.0), (True, False, 0.0), (False, True, 0.0), (False, False, 3.0),
                                              (True, False, 3.0)):
                        for ta, tb in (("J", "J"), ("R", "J"), ("J", "T"), ("T", "J"), ("J", "R")):
                            sid += 1
                            yield {"id": sid, "kind": kind, "f": list(f), "at_end": at_end, "verts": verts, "cv": cv,
                                   "closed": closed, "minor": minor, "ta": ta, "tb": tb}


def build_split_model(w, c):
    wn = w.network.WaterNetworkModel()

    def add(name, t, xy, elev):
        if t == "J":
            wn.add_junction(name, base_demand=0.004, elevation=elev, coordinates=xy)
        elif t == "T":
            wn.add_tank(name, elevation=elev, init_level=3.0, min_level=0.0, max_level=8.0, diameter=12.0, coordinates=xy)
        else:
            wn.add_reservoir(name, base_head=elev + 30.0, coordinates=xy)
    end_xy = (60.0, 40.0) if len(c["verts"]) == 2 else (60.0, 0.0)
    add("A", c["ta"], (0.0, 0.0), 12.0)
    add("B", c["tb"], end_xy, 4.0)
    wn.add_reservoir("SRC", base_head=70.0, coordinates=(-50.0, 0.0))
    wn.add_junction("C", base_demand=0.003, elevation=2.0, coordinates=(90.0, 40.0))
    wn.add_pipe("PS", "SRC", "A" if c["ta"] == "J" else "B" if c["tb"] == "J" else "C", length=300.0, diameter=0.3, roughness=100)
    if c["tb"] == "J" or c["ta"] == "J":
        wn.add_pipe("PC", "B" if c["tb"] == "J" else "A", "C", length=200.0, diameter=0.25, roughness=100)
    else:
        wn.add_pipe("PC", "SRC", "C", length=200.0, diameter=0.25, roughness=100)
    wn.add_pipe("P", "A", "B", length=120.0, diameter=0.2, roughness=110.0, minor_loss=c["minor"],
                initial_status="CLOSED" if c["closed"] else "OPEN", check_valve=c["cv"])
    wn.get_link("P").vertices = [tuple(float(x) for x in v) for v in c["verts"]]
    wn.options.time.duration = 3 * 3600
    return wn


def pipe_proj(l):
    return {"len": common.num(l.length), "diam": common.num(l.diameter), "rough": common.num(l.roughness),
            "minor": common.num(l.minor_loss), "cv": bool(l.check_valve), "status": int(l.initial_status),
            "a": l.start_node_name, "b": l.end_node_name, "verts": [[int(round(x)), int(round(y))] for x, y in l.vertices]}


def others(wn, skip_links, skip_nodes):
    d = wn.to_dict()
    d["nodes"] = [n for n in d["nodes"] if n["name"] not in skip_nodes]
    d["links"] = [l for l in d["links"] if l["name"] not in skip_links]
    return json.dumps(canon(d), sort_keys=True)


def sim_rows(w, wn, nodes, links):
    r, _ = simnet.run_wntr(w, wn)
    if r.error_code is not None:
        return None
    out = []
    for i, t in enumerate(r.node["head"].index):
        num = {}
        for n in nodes:
            num["h_" + n] = float(r.node["head"][n].iloc[i])
            num["d_" + n] = float(r.node["demand"][n].iloc[i])
        for l in links:
            num["q_" + l] = float(r.link["flowrate"][l].iloc[i])
        out.append({"t": int(t), "num": {k: common.num(v) for k, v in num.items()}, "st": {l: int(r.link["status"][l].iloc[i]) for l in links}})
    return out


def run_split(c):
    w = common.import_wntr()
    wn = build_split_model(w, c)
    before = json.dumps(canon(wn.to_dict()), sort_keys=True)
    pre = {"pipe": pipe_proj(wn.get_link("P")),
           "ends": {k: {"type": {"Junction": "J", "Tank": "T", "Reservoir": "R"}[wn.get_node(n).node_type],
                        "elev": common.num(wn.get_node(n).elevation if wn.get_node(n).node_type != "Reservoir" else 0.0),
                        "xy": [int(wn.get_node(n).coordinates[0]), int(wn.get_node(n).coordinates[1])]}
                    for k, n in (("a", "A"), ("b", "B"))},
           "others": others(wn, {"P"}, set())}
    f = c["f"][0] / c["f"][1]
    try:
        if c["kind"] == "split":
            wn2 = w.morph.split_pipe(wn, "P", "PNEW", "JNEW", add_pipe_at_end=c["at_end"], split_at_point=f, return_copy=True)
            newj = ["JNEW"]
        else:
            wn2 = w.morph.break_pipe(wn, "P", "PNEW", "JN1", "JN2", add_pipe_at_end=c["at_end"], split_at_point=f, return_copy=True)
            newj = ["JN1", "JN2"]
    except Exception as e:
        return {"exc": "%s: %s" % (type(e).__name__, str(e)[:100]), "case": c}
    post = {"old": pipe_proj(wn2.get_link("P")), "new": pipe_proj(wn2.get_link("PNEW")),
            "j": [{"name": n, "elev": common.num(wn2.get_node(n).elevation), "x": common.num(wn2.get_node(n).coordinates[0]),
                   "y": common.num(wn2.get_node(n).coordinates[1]),
                   "ndem": sum(1 for d in wn2.get_node(n).demand_timeseries_list if d.base_value)} for n in newj],
            "others": others(wn2, {"P", "PNEW"}, set(newj))}
    out = {"kind": c["kind"], "f": c["f"], "at_end": c["at_end"], "pre": pre, "post": post,
           "input_same": json.dumps(canon(wn.to_dict()), sort_keys=True) == before, "case": c, "agree": None}
    if c["kind"] == "split" and 0 < f < 1:
        nodes = [n for n in wn.node_name_list]
        links = [l for l in wn.link_name_list if l != "P"]
        a = sim_rows(w, wn, nodes, links)
        b = sim_rows(w, wn2, nodes, links)
        if a is not None and b is not None:
            out["agree"] = {"clause": "C19.split_hydraulics", "clause2": "C19.split_hydraulics", "clause3": "C19.split_hydraulics",
                            "a": a, "b": b, "atol": common.num(2e-4), "rtol": common.num(1e-4), "qsmall": common.num(1e-4),
                            "numkeys": sorted(a[0]["num"]), "stkeys": sorted(a[0]["st"]), "boundary": []}
    return out


def run_skel(job):
    sid, seed = job
    w = common.import_wntr()
    rnd = random.Random(seed)
    s = netgen.gen(rnd, sid, mode="DD", features={"tanks", "pumps", "valves", "patterns", "parallel", "controls", "minor"})
    # more junctions hanging off the network so that there is something to trim / merge
    js = [n["name"] for n in s["nodes"] if n["type"] == "J"]
    extra = []
    for k in range(rnd.randint(2, 6)):
        nm = "X%d" % k
        s["nodes"].append({"name": nm, "type": "J", "elev": netgen.rgrid(rnd, 0, 20, 2.5),
                           # mostly withdrawals, sometimes an inflow (a well modelled as a negative demand)
                           "dem": [{"base": netgen.rgrid(rnd, 0.0005, 0.004, 0.0005) * rnd.choice([1, 1, 1, -1]),
                                    "pat": rnd.choice(list(s["patterns"]) + [""])}],
                           "has_pdd": False, "pmin": 0.0, "preq": 0.0, "pexp": [1, 2],
                           "leak": {"on": False, "area": 0.0, "cd": 0.75, "start": -1, "end": -1}})
        s["links"].append({"name": "PX%d" % k, "type": "pipe", "a": rnd.choice(js + extra), "b": nm, "len": netgen.rgrid(rnd, 50, 500, 10),
                           "diam": rnd.choice([0.1, 0.15, 0.2]), "rough": 100.0, "minor": 0.0, "cv": False, "init": 1})
        extra.append(nm)
    for n in s["nodes"]:
        if n.get("leak"):
            n["leak"]["on"] = False
    try:
        wn = simnet.build(w, s)
        thr = rnd.choice([0.1, 0.15, 0.2, 0.3, 1.0])
        opts = dict(branch_trim=rnd.random() < 0.8, series_pipe_merge=rnd.random() < 0.8, parallel_pipe_merge=rnd.random() < 0.8,
                    max_cycles=rnd.choice([None, None, 1, 2]), use_epanet=False)
        pipes = [l["name"] for l in s["links"] if l["type"] == "pipe"]
        excl_p = rnd.sample(pipes, rnd.choice([0, 0, 1, 2]))
        excl_j = rnd.sample(js + extra, rnd.choice([0, 0, 1, 2]))
        times = list(range(0, s["Dur"] + 1, s["Pat"]))

        def totals(m):
            return [common.num(sum(j.demand_timeseries_list.at(t) for _, j in m.junctions())) for t in times]
        pre_tot = totals(wn)
        keep = set(wn.tank_name_list) | set(wn.reservoir_name_list) | set(wn.pump_name_list) | set(wn.valve_name_list)
        for _, ctl in wn.controls():
            for obj in ctl.requires():
                keep.add(obj.name)
        wn2, mp = w.morph.skeletonize(wn, thr, pipes_to_exclude=excl_p, junctions_to_exclude=excl_j, return_map=True,
                                      return_copy=True, **opts)
    except Exception as e:
        return {"exc": "%s: %s" % (type(e).__name__, str(e)[:120]), "seed": seed}
    return {"kind": "skel", "keep": sorted(keep), "post_nodes": list(wn2.node_name_list), "post_links": list(wn2.link_name_list),
            "map": {k: list(v) for k, v in mp.items()}, "orig_nodes": list(wn.node_name_list), "dem_pre": pre_tot,
            "dem_post": totals(wn2), "seed": seed, "removed": wn.num_nodes - wn2.num_nodes,
            "opts": {k: str(v) for k, v in opts.items()}, "thr": thr}


def main(tier, replay):
    ck = common.Check("C19", "model_checking", tier)
    if replay:
        d = common.load_replay(replay)["detail"]
        sc = [d["case"]] if "case" in d else []
        sk = [(1, d["seed"])] if "seed" in d else []
    else:
        sc = list(split_cases())
        if tier == "quick":
            sc = sc[::3]
        sk = [(i + 1, common.SEED * 104729 + i) for i in range(70 if tier == "quick" else 2500)]
        ck.cov["exhaustive"] = (tier == "thorough")
    with cf.ProcessPoolExecutor(max_workers=common.NCPU) as ex:
        so = list(ex.map(run_split, sc, chunksize=8))
        ko = list(ex.map(run_skel, sk, chunksize=2))
    cases, meta, agree, ameta = [], [], [], []
    for o in so:
        c = o["case"]
        tag = "%s f=%d/%d at_end=%s verts=%d cv=%s closed=%s minor=%s ends=%s%s" % (
            c["kind"], c["f"][0], c["f"][1], c["at_end"], len(c["verts"]), c["cv"], c["closed"], bool(c["minor"]), c["ta"], c["tb"])
        if "exc" in o:
            ck.violation("C19.run", "%s f=%d/%d verts=%s :: %s" % (c["kind"], c["f"][0], c["f"][1], bool(c["verts"]), o["exc"]), {"case": c})
            continue
        cases.append({k: o[k] for k in ("kind", "f", "at_end", "pre", "post", "input_same")})
        meta.append((c, tag))
        if o["agree"]:
            agree.append(o["agree"]); ameta.append((c, tag))
        ck.nontrivial(tag)
    for o in ko:
        if "exc" in o:
            if o["exc"].startswith("KeyError: 0"):
                ck.count("skeletonize_presolve_failed")     # its internal steady-state run did not converge: no subject
            else:
                ck.violation("C19.skel_run", o["exc"], {"seed": o["seed"]})
            continue
        cases.append({k: o[k] for k in ("kind", "keep", "post_nodes", "post_links", "map", "orig_nodes", "dem_pre", "dem_post")})
        meta.append(({"seed": o["seed"]}, "skeletonize thr=%s %s" % (o["thr"], o["opts"])))
        ck.nontrivial(["skel", o["seed"]])
        ck.count("skeletonizations")
        if o["removed"]:
            ck.count("skeletonizations_removing_nodes")
    for gi, payload in common.run_cases("Morph", cases, check=ck):
        c, tag = meta[gi]
        for cl in common.parse_set(payload):
            if "seed" in c:
                ck.violation(cl, cl + " :: " + tag, {"seed": c["seed"]})
            else:
                sig = {"C19.no_cv": "cv=%s" % c["cv"], "C19.junction_place": "f=%d/%d verts=%d ends=%s%s" % (c["f"][0], c["f"][1], len(c["verts"]), c["ta"], c["tb"])}.get(cl, tag)
                ck.violation(cl, "%s :: %s %s" % (cl, c["kind"], sig), {"case": c})
    for gi, payload in common.run_cases("Agree", agree, check=ck):
        c, tag = ameta[gi]
        for cl in common.parse_set(payload):
            ck.violation(cl, "%s :: minor_loss>0=%s cv=%s closed=%s" % (cl, bool(c["minor"]), c["cv"], c["closed"]), {"case": c})
    ck.cov["evaluations"] = len(cases) + len(agree)
    ck.cov["traces_validated_against_impl"] = len(cases)
    ck.cov["counters"]["split_break_cases"] = len(so)
    ck.cov["counters"]["split_hydraulics_comparisons"] = len(agree)
    ck.cov["rule"] = ("split/break: grid kind x fraction {0,1/4,1/3,1/2,1} x either end x 0-2 vertices x (CV, closed, minor loss) x end "
                      "node types (every 3rd case in the quick tier, all in the thorough tier); skeletonize: random networks with "
                      "dangling branches x diameter threshold x branch/series/parallel options x max_cycles x exclusion lists; "
                      "all cases distinct")
    if cases:
        ck.sample({"split_case": so[0]["case"] if so else None})
    if not replay and cases:
        bad = copy.deepcopy(cases[0])
        if bad["kind"] != "skel":
            bad["post"]["new"]["len"] = common.num(float(common.unnum(bad["post"]["new"]["len"])) + 0.5)
            if not common.run_cases("Morph", [bad], nproc=1):
                raise common.MachineryError("binding self-test: wrong length accepted")
        if not ck.cov["counters"].get("skeletonizations_removing_nodes"):
            ck.vacuity("vacuity: no skeletonization removed anything")
    ck.assumptions += ["pipe polylines are axis-parallel with integer coordinates (exact geometry)",
                       "split hydraulics compared up to the solver tolerance (2e-4 + 1e-4 relative)"]
    return ck.finish()

"""C08 - leaks discharge Cd*A*sqrt(2*g*p) only while active and only at positive pressure (trace validation).
Leak start/end are time controls: windows on and off the hydraulic grid, several simultaneous leaks, junction and
tank leaks, DD with negative pressures, PDD; remove_leak removes the leak completely."""
import random
import common
import hyd
import netgen


def leak_scenarios(rnd, n, start_id):
    out = []
    for i in range(n):
        s = netgen.gen(rnd, start_id + i, features={"tanks", "patterns", "parallel", "cv", "minor", "closed"})
        H = s["H"]
        cand = [nd for nd in s["nodes"] if nd["type"] in ("J", "T")]
        for nd in rnd.sample(cand, min(len(cand), rnd.choice([1, 2, 3]))):
            st = rnd.choice([0, 0, H, H + 600, 2 * H, 2 * H + 1, 3 * H - 1])
            nd["leak"] = {"on": True, "area": netgen.rgrid(rnd, 0.0001, 0.003, 0.0001), "cd": rnd.choice([0.75, 0.6, 1.0]),
                          "start": st, "end": rnd.choice([-1, st + H, st + H + 777, st + 3 * H])}
        if i % 4 == 1:
            # a dead-end junction with a leak that a time control cuts off while the leak is discharging (and reconnects):
            # an isolated junction reports no leak flow
            import c02
            H = s["H"]
            host = rnd.choice([nd["name"] for nd in s["nodes"] if nd["type"] == "J"])
            jd = c02.junction("JL", netgen.rgrid(rnd, 0, 10, 2.5), [{"base": 0.001, "pat": ""}])
            jd["leak"] = {"on": True, "area": netgen.rgrid(rnd, 0.0002, 0.002, 0.0002), "cd": 0.75, "start": rnd.choice([0, H]), "end": -1}
            s["nodes"].append(jd)
            s["links"].append({"name": "PL", "type": "pipe", "a": host, "b": "JL", "len": 200.0, "diam": 0.25, "rough": 100.0,
                               "minor": 0.0, "cv": False, "init": 1})
            k = len(s["links"])
            t0 = H * rnd.randint(2, 3)
            s["ctl"].append({"kind": "sim", "thr": t0, "rep": 0, "link": k, "val": 0, "prio": 3})
            if rnd.random() < 0.6:
                s["ctl"].append({"kind": "sim", "thr": t0 + H * rnd.randint(1, 2), "rep": 0, "link": k, "val": 1, "prio": 3})
        if i % 5 == 0:      # undersized source: negative pressures in demand-driven mode
            s["mode"] = "DD"
            for nd in s["nodes"]:
                if nd["type"] == "R":
                    nd["head"] = netgen.rgrid(rnd, 8, 20, 2)
        out.append(s)
    return out


def check_remove_leak(ck, w, rnd, after_run=False):
    """remove_leak: no leak flow and no leak controls remain (API-level replay, judged by the same trace spec)"""
    import simnet
    s = leak_scenarios(rnd, 1, 9000)[0]
    wn = simnet.build(w, s)
    n_before = len(list(wn.controls()))
    if after_run in ("reset", "continue"):
        # history: run with the leaks (some still active at the end), then remove them, and either reset and run again or
        # CONTINUE the paused run (after_run == "continue"): the removed leak must not discharge in the continuation
        for nd in s["nodes"]:
            if nd.get("leak", {}).get("on"):
                nd["leak"]["end"] = -1
                wn._discard_control(wn.get_node(nd["name"])._leak_end_control_name)
        if after_run == "continue":
            wn.options.time.duration = (s["Dur"] // s["H"] // 2) * s["H"]
        simnet.run_wntr(w, wn, HW_approx=s["hw"])
        wn.options.time.duration = s["Dur"]
    if after_run == "dict":
        # history: the model travels through its dictionary form (controls come back under generic names) before the leaks
        # are removed
        wn = w.network.from_dict(wn.to_dict())
    for nd in s["nodes"]:
        if nd.get("leak", {}).get("on"):
            wn.get_node(nd["name"]).remove_leak(wn)
            nd["leak"]["on"] = False
    if after_run == "reset":
        wn.reset_initial_values()
    leftover = [name for name, c in wn.controls()
                if "leak" in name.lower() or any(a.target()[1] == "leak_status" for a in c.actions())]
    if leftover:
        ck.violation("C08.leak_removed", "leak controls remain after remove_leak", {"scn": s, "controls": leftover})
    res, _ = simnet.run_wntr(w, wn, HW_approx=s["hw"])
    if res.error_code is None:
        simnet.scenario_certs(s)
        rows = simnet.rows_of(s, res)
        v = common.run_cases("ObsTrace", [simnet.encode_trace(s, rows, ["C08"])], check=ck, nproc=1)
        for gi, l, name, el in hyd.handle(ck, "C08", [(s, rows)], v, expect=True):
            if name.startswith("C08."):
                ck.violation("C08.leak_removed", "leak flow after remove_leak :: " + name, {"scn": s, "row": l, "element": el})
        ck.count("remove_leak_runs")
    return n_before


def main(tier, replay):
    ck = common.Check("C08", "model_checking", tier)
    rnd = random.Random(common.SEED + 808)
    props = ["C08", "C01"]
    if replay:
        scns = [common.load_replay(replay)["detail"]["scn"]]
    else:
        scns = leak_scenarios(rnd, 140 if tier == "quick" else 4000, 1)
    good = hyd.validate(ck, "C08", scns, props)
    for s, rows in good:
        for nd in s["nodes"]:
            lk = nd.get("leak")
            if not lk or not lk["on"]:
                continue
            for r in rows:
                act = r["t"] >= lk["start"] and (lk["end"] < 0 or r["t"] < lk["end"])
                p = r["press"][nd["name"]]
                ck.count("leak_rows_" + ("inactive" if not act else "positive_pressure" if p > 1e-4 else "nonpositive_pressure"))
            if lk["start"] % s["H"] or (lk["end"] > 0 and lk["end"] % s["H"]):
                ck.count("windows_off_grid")
            ck.count("leaks_on_" + nd["type"])
    if not replay:
        def mutate(s, rows):
            for nd in s["nodes"]:
                if nd.get("leak", {}).get("on"):
                    for r in rows:
                        if r["leak"][nd["name"]] > 1e-4:
                            r["leak"][nd["name"]] *= 1.01
                            return "leak demand of %s x 1.01" % nd["name"]
            return None
        hyd.selftest(ck, "C08", good, props, mutate)
        for k in range(8 if tier == "quick" else 80):
            check_remove_leak(ck, common.import_wntr(), rnd, after_run=(False, "reset", "continue", "dict")[k % 4])
        c = ck.cov["counters"]
        for k in ("leak_rows_inactive", "leak_rows_positive_pressure", "windows_off_grid", "leaks_on_J"):
            if not c.get(k):
                ck.vacuity("vacuity: %s = 0" % k)
    hyd.finish_cov(ck, good, "random networks with 1-3 leaks on junctions and tanks, areas 1e-4..3e-3 m2, Cd in {0.6,0.75,1}, start/end "
                   "on and off the hydraulic grid (incl. +-1 s), open-ended leaks, DD with undersized sources (negative pressure) "
                   "and PDD; every leaky node x reported row is a clause instance; the C01 balance clauses are evaluated on the same "
                   "rows so that the leak is part of the node balance")
    ck.assumptions += ["leak law checked without a root: (Cd A)^2 2 g p in [ (q-2e-6)^2, (q+2e-6)^2 ]",
                       "within 1e-4 m of zero pressure only the bound is asserted"]
    return ck.finish()

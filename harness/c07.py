"""C07 - pressure dependent demand follows the documented pressure-demand curve (trace validation).
Sweep traces: a reservoir whose head follows a pattern sweeps the pressure at a PDD junction from far below Pmin to
far above Preq, densely (sub-millimetre) around both smoothing-band edges; TLC checks the five-branch curve per row
and monotonicity / continuity over all ordered pairs of rows (ObsTrace!SweepClauses)."""
import random
import common
import hyd
import netgen
import c02


def sweep_heads(pmin, preq):
    hs = [pmin - 12.0, pmin - 1.0, pmin - 0.05, preq + 0.3, preq + 8.0, preq + 40.0]
    for edge in (pmin, pmin + 0.05, preq - 0.05, preq):
        for mm in (0.2, 0.6, 1.0, 1.8, 4.0, 11.0, 24.0):
            hs += [edge - mm / 1000.0, edge + mm / 1000.0]
    n = 14
    hs += [pmin + 0.06 + (preq - pmin - 0.12) * k / n for k in range(n + 1)]
    return [float("%.6f" % h) for h in hs]


def sweep_scenario(rnd, sid):
    pmin = rnd.choice([0.0, 2.0, 3.5, 10.0])
    span = rnd.choice([4.0, 10.0, 17.5, 25.0])
    pexp = list(rnd.choice(netgen.PEXP_GRID))
    override = rnd.random() < 0.5
    s = c02.base(sid, rnd.choice(["default", "piecewise"]))
    s["mode"] = "PDD"
    # global parameters; when override is set the swept junction has its own and the global ones differ
    if override:
        s["pmin"], s["preq"], s["pexp"] = pmin + 1.5, pmin + 1.5 + span * 0.6, list(rnd.choice(netgen.PEXP_GRID))
    else:
        s["pmin"], s["preq"], s["pexp"] = pmin, pmin + span, pexp
    heads = sweep_heads(pmin, pmin + span)
    rnd.shuffle(heads)
    s["patterns"] = {"HEADS": heads}
    s["Dur"] = 3600 * (len(heads) - 1)
    D = rnd.choice([0.0, 0.0005, 0.004, 0.02])
    j0 = c02.junction("J0", 0.0, [{"base": D, "pat": ""}] if D or rnd.random() < 0.5 else [])
    if override:
        j0.update({"has_pdd": True, "pmin": pmin, "preq": pmin + span, "pexp": pexp})
    j1 = c02.junction("J1", 1.0, [{"base": 0.003, "pat": ""}])      # always uses the global parameters
    s["nodes"] = [{"name": "R0", "type": "R", "elev": 0.0, "head": 1.0, "pat": "HEADS"}, j0, j1]
    s["links"] = [{"name": "P0", "type": "pipe", "a": "R0", "b": "J0", "len": 1.0, "diam": 0.6, "rough": 130.0, "minor": 0.0,
                   "cv": False, "init": 1},
                  {"name": "P1", "type": "pipe", "a": "J0", "b": "J1", "len": 10.0, "diam": 0.5, "rough": 130.0, "minor": 0.0,
                   "cv": False, "init": 1}]
    s["sweep"] = "J0" if j0["dem"] else ""
    s["must_solve"] = "pressure sweep on reservoir-junction-junction"
    return s


def main(tier, replay):
    ck = common.Check("C07", "model_checking", tier)
    rnd = random.Random(common.SEED + 707)
    props = ["C07"]
    if replay:
        scns = [common.load_replay(replay)["detail"]["scn"]]
    else:
        n_sw, n_gen = (40, 60) if tier == "quick" else (1500, 1500)
        scns = [sweep_scenario(rnd, i + 1) for i in range(n_sw)]
        scns += [netgen.gen(rnd, n_sw + i + 1, mode="PDD") for i in range(n_gen)]
        # controls that change the required pressure of a junction with its own PDD parameters during the run
        for s in scns[n_sw:]:
            for nd in s["nodes"]:
                if nd["type"] == "J" and nd.get("has_pdd") and rnd.random() < 0.6:
                    nd["pctl"] = [{"thr": s["H"] * rnd.randint(1, 3), "val": nd["pmin"] + rnd.choice([4.0, 12.0, 40.0])}]
                    ck.count("junctions_with_required_pressure_control")
    good = hyd.validate(ck, "C07", scns, props)
    br = {"below_pmin": 0, "band_lo": 0, "power": 0, "band_hi": 0, "above_preq": 0}
    for s, rows in good:
        for nd in s["nodes"]:
            if nd["type"] != "J" or not nd["dem"]:
                continue
            pmin, preq = (nd["pmin"], nd["preq"]) if nd["has_pdd"] else (s["pmin"], s["preq"])
            for r in rows:
                p = r["press"][nd["name"]]
                k = "below_pmin" if p <= pmin else "band_lo" if p <= pmin + 0.05 else "power" if p < preq - 0.05 else \
                    "band_hi" if p < preq else "above_preq"
                br[k] += 1
        if s["sweep"]:
            ck.count("sweep_traces")
            ck.count("sweep_pairs", len(rows) * (len(rows) - 1) // 2)
            ck.count("exponent_%d/%d" % tuple(next(n for n in s["nodes"] if n["name"] == "J0")["pexp"]
                                              if next(n for n in s["nodes"] if n["name"] == "J0")["has_pdd"] else s["pexp"]))
    ck.cov["counters"]["branch_samples"] = br
    if not replay:
        def mutate(s, rows):
            if not s["sweep"]:
                return None
            for r in rows:
                if 0.3 < r["cert"]["J0"]["x"] < 0.7 and r["dem"]["J0"] > 1e-3:
                    r["dem"]["J0"] *= 1.02
                    return "delivered demand of J0 x 1.02"
            return None
        hyd.selftest(ck, "C07", good, props, mutate)
        if min(br.values()) == 0:
            ck.vacuity("vacuity: a branch of the curve was never sampled: %r" % br)
    hyd.finish_cov(ck, good, "sweep traces (reservoir head pattern: ~75 pressures from Pmin-12 m to Preq+40 m, +-0.2..24 mm around the "
                   "four band edges) over Pmin, span, exponent from {1/2,3/10,2/5,11/20,3/4,1}, global vs per-junction parameters, "
                   "requested demand incl. 0; plus every PDD row of random networks; per-row five-branch law and all ordered pairs "
                   "of a sweep for monotonicity/continuity")
    ck.assumptions += ["inside the two 0.05 m smoothing bands only boundedness, monotonicity and continuity (Lipschitz 60*D per m "
                       "above Pmin+25 mm) are asserted", "exponents are rationals with small denominators (PowCert)"]
    return ck.finish()

"""CLI dispatcher: ./check <Cxx> [--tier quick|thorough] [--replay path]
exit 0 = held on everything explored; 1 = violation (VIOLATION line printed); 2 = machinery failure."""
import argparse
import importlib
import os
import sys
import traceback

sys.path.insert(0, os.path.dirname(os.path.abspath(__file__)))


def main():
    ap = argparse.ArgumentParser()
    ap.add_argument("prop")
    ap.add_argument("--tier", default=os.environ.get("VERIF_TIER", "quick"), choices=["quick", "thorough"])
    ap.add_argument("--replay", default=None)
    a = ap.parse_args()
    import common
    try:
        if a.prop == "setup":
            import setup_all
            return setup_all.main()
        mod = importlib.import_module(a.prop.lower())
        return mod.main(a.tier, a.replay)
    except common.MachineryError as e:
        print("MACHINERY-ERROR: %s" % e, file=sys.stderr)
        return 2
    except Exception:
        traceback.print_exc()
        print("MACHINERY-ERROR: unexpected exception in harness", file=sys.stderr)
        return 2


if __name__ == "__main__":
    sys.exit(main())

"""C13 - dictionary and JSON representations round-trip the model exactly (translation validation).
Subjects: random feature-rich models built through the API (vertices on every link type, tags, initial quality, several
demands per junction, curves, sources, leaks, controls, rules with ELSE and priorities).  For each subject
to_dict -> JSON text -> from_dict -> to_dict; TLC (Same.tla) decides structural equality of the canonicalised dictionaries
after exactly the normalisation the property names; appending the dictionary to an empty model must give the same."""
import concurrent.futures as cf
import copy
import json
import random
import common
import netgen
import simnet
from c11 import canon, diff_paths


def decorate(w, wn, s, rnd):
    """features the property names that netgen does not produce"""
    C = w.network.controls
    for l in s["links"]:
        link = wn.get_link(l["name"])
        if rnd.random() < 0.5:
            link.vertices = [(float(rnd.randint(0, 50)), float(rnd.randint(0, 50))) for _ in range(rnd.randint(1, 3))]
        if rnd.random() < 0.4:
            link.tag = "tag_" + l["name"]
        if rnd.random() < 0.3:
            link.initial_quality = rnd.choice([0.1, 0.5])
    for n in s["nodes"]:
        node = wn.get_node(n["name"])
        node.coordinates = (float(rnd.randint(0, 100)), float(rnd.randint(0, 100)))
        if rnd.random() < 0.3:
            node.tag = "t_" + n["name"]
        if rnd.random() < 0.3:
            node.initial_quality = rnd.choice([0.2, 1.0])
    juncs = [n["name"] for n in s["nodes"] if n["type"] == "J"]
    pats = list(s["patterns"])
    if rnd.random() < 0.6:
        wn.add_source("src1", rnd.choice(juncs), rnd.choice(["CONCEN", "MASS", "SETPOINT", "FLOWPACED"]), 1.5,
                      rnd.choice(pats) if pats and rnd.random() < 0.5 else None)
    pipes = [l["name"] for l in s["links"] if l["type"] == "pipe"]
    tanks = [n["name"] for n in s["nodes"] if n["type"] == "T"]
    if pipes:
        p = wn.get_link(rnd.choice(pipes))
        cond = C.SimTimeCondition(wn, ">=", 7200)
        if tanks and rnd.random() < 0.6:
            cond = C.AndCondition(cond, C.ValueCondition(wn.get_node(tanks[0]), "level", "<", 3.5))
        elif rnd.random() < 0.5:
            cond = C.OrCondition(cond, C.ValueCondition(wn.get_node(juncs[0]), "pressure", ">", 30.0))
        then = [C.ControlAction(p, "status", w.network.LinkStatus.Closed)]
        els = [C.ControlAction(p, "status", w.network.LinkStatus.Open)] if rnd.random() < 0.6 else None
        # several THEN / ELSE actions (on other pipes)
        for q in rnd.sample(pipes, min(len(pipes), rnd.randint(0, 2))):
            if wn.get_link(q) is not p:
                then.append(C.ControlAction(wn.get_link(q), "status", rnd.choice([w.network.LinkStatus.Open, w.network.LinkStatus.Closed])))
                if els is not None and rnd.random() < 0.7:
                    els.append(C.ControlAction(wn.get_link(q), "status", rnd.choice([w.network.LinkStatus.Open, w.network.LinkStatus.Closed])))
        wn.add_control("rule_x", C.Rule(cond, then, els, priority=rnd.choice([1, 3, 5])))
        if tanks:
            wn.add_control("ctl_lvl", C.Control(C.ValueCondition(wn.get_node(tanks[0]), "level", ">", 4.0),
                                                C.ControlAction(p, "status", w.network.LinkStatus.Open)))
        if rnd.random() < 0.6:
            # a rule on the clock time, thresholds in every part of the day (midnight hour, morning, noon hour, evening)
            sec = rnd.choice([15 * 60, 6 * 3600, 11 * 3600 + 59 * 60, 12 * 3600, 12 * 3600 + 1800, 12 * 3600 + 3599, 13 * 3600, 21 * 3600 + 900])
            wn.add_control("rule_clk", C.Rule(C.TimeOfDayCondition(wn, rnd.choice([">=", "<", ">", "<="]), sec),
                                              [C.ControlAction(p, "status", w.network.LinkStatus.Open)], priority=rnd.choice([2, 4]), name="rule_clk"))
        # simple controls at clock times of every part of the day (AM, PM, the 12 o'clock hours) and at a simulation time
        for k in range(rnd.randint(0, 3)):
            sec = rnd.choice([0, 900, 6 * 3600, 11 * 3600 + 59 * 60, 12 * 3600, 12 * 3600 + 1800, 14 * 3600 + 1800, 21 * 3600, 23 * 3600 + 3540])
            cnd = C.TimeOfDayCondition(wn, "=", sec) if rnd.random() < 0.7 else C.SimTimeCondition(wn, "=", sec + 86400 * rnd.randint(0, 1))
            wn.add_control("ctl_t%d" % k, C.Control(cnd, C.ControlAction(p, "status", rnd.choice([w.network.LinkStatus.Open, w.network.LinkStatus.Closed]))))
    # tank mixing models and fractions (incl. 0.0), patterns that do not wrap
    for t in tanks:
        if rnd.random() < 0.6:
            tank = wn.get_node(t)
            tank.mixing_model = rnd.choice(["MIXED", "2COMP", "FIFO", "LIFO"])
            # a two-compartment model needs its fraction (EPANET syntax); the other models may or may not carry one
            if rnd.random() < 0.7 or tank.mixing_model.name in ("Mix2", "TwoComp"):
                tank.mixing_fraction = rnd.choice([0.0, 0.25, 1.0])
    if rnd.random() < 0.3:
        from wntr.network.elements import Pattern
        wn.add_pattern("nowrap", Pattern("nowrap", [1.0, 0.5, 2.0], time_options=wn.options.time, wrap=False))


def exotic_controls(w, wn, s, rnd):
    """at most one control per model that the textual control representation of to_dict cannot carry (open known findings) or
    that it once could not (fixed ones); returns the tag of the one that was added"""
    C = w.network.controls
    pipes = [l["name"] for l in s["links"] if l["type"] == "pipe"]
    juncs = [n["name"] for n in s["nodes"] if n["type"] == "J"]
    tanks = [n["name"] for n in s["nodes"] if n["type"] == "T"]
    if not pipes or not juncs or rnd.random() >= 0.4:
        return []
    closed = C.ControlAction(wn.get_link(pipes[0]), "status", w.network.LinkStatus.Closed)
    kind = rnd.choice(["link", "once", "head", "ge", "after", "aboc", "space"])
    if kind == "link":
        wn.add_control("ctl_flow", C.Control(C.ValueCondition(wn.get_link(pipes[-1]), "flow", ">", 0.5), closed))
        return ["[simple control conditioned on a link]"]
    if kind == "once":
        wn.add_control("rule_once", C.Rule(C.TimeOfDayCondition(wn, ">=", 6 * 3600, repeat=False),
                                           [C.ControlAction(wn.get_link(pipes[0]), "status", w.network.LinkStatus.Open)], name="rule_once"))
        return ["[rule with a clock-time condition that does not repeat]"]
    if kind == "head":
        wn.add_control("ctl_head", C.Control(C.ValueCondition(wn.get_node(rnd.choice(tanks or juncs)), "head", ">", 46.0), closed))
        return ["[simple control conditioned on a node's head]"]
    if kind == "ge":
        wn.add_control("ctl_ge", C.Control(C.ValueCondition(wn.get_node(juncs[0]), "pressure", ">=", 50.0), closed))
        return ["[simple control with the relation >=]"]
    if kind == "after":
        wn.add_control("ctl_after", C.Control(C.SimTimeCondition(wn, ">", 3600), closed))
        return ["[simple time control with the relation >]"]
    if kind == "aboc":
        a = C.ValueCondition(wn.get_node((tanks or juncs)[0]), "level" if tanks else "pressure", ">=", 7.0)
        cond = C.OrCondition(C.AndCondition(a, C.SimTimeCondition(wn, ">", 3600)), C.ValueCondition(wn.get_link(pipes[0]), "status", "=", 1))
        wn.add_control("rule_aboc", C.Rule(cond, [closed], name="rule_aboc"))
        return ["[rule whose condition is (A AND B) OR C]"]
    wn.add_control("rule with space", C.Rule(C.SimTimeCondition(wn, ">=", 3600), [closed], name="rule with space"))
    return ["[rule whose name has a space]"]


def norm(d):
    """exactly the normalisation the property allows: tuples -> lists (JSON), empty pattern names, a junction without
    demands comes back with one zero demand"""
    d = copy.deepcopy(d)
    for n in d.get("nodes", []):
        if n.get("node_type") == "Junction":
            ts = n.get("demand_timeseries_list")
            if not ts or (len(ts) == 1 and not ts[0].get("base_val") and ts[0].get("category") is None):
                # "a junction without demands returns with one zero demand" (its pattern is the model's default pattern
                # name, which is irrelevant for a zero demand)
                n["demand_timeseries_list"] = [{"base_val": 0.0, "pattern_name": None, "category": None}]
                for k in ("demand_pattern", "pattern_name", "base_demand", "demand_category"):
                    n.pop(k, None)
            for e in n.get("demand_timeseries_list", []):
                if e.get("pattern_name") in ("", None):
                    e["pattern_name"] = None
        for k in ("head_pattern_name",):
            if n.get(k) == "":
                n[k] = None
    return json.loads(json.dumps(d))


def one(job):
    sid, seed = job
    w = common.import_wntr()
    rnd = random.Random(seed)
    s = netgen.gen(rnd, sid)
    try:
        wn = simnet.build(w, s)
        decorate(w, wn, s, rnd)
        tags = exotic_controls(w, wn, s, rnd)
        d0 = wn.to_dict()
    except Exception as e:
        return {"build_exc": "%s: %s" % (type(e).__name__, str(e)[:120])}
    out = {"seed": seed, "features": sorted(netgen.features_of(s)), "d0": canon(norm(d0)), "variants": [], "tags": tags}
    for name, fn in (("json", lambda: w.network.from_dict(json.loads(json.dumps(d0)))),
                     ("dict", lambda: w.network.from_dict(copy.deepcopy(d0))),
                     ("append_empty", lambda: w.network.from_dict(json.loads(json.dumps(d0)), append=w.network.WaterNetworkModel()))):
        try:
            wn2 = fn()
            out["variants"].append((name, canon(norm(wn2.to_dict())), ""))
        except Exception as e:
            out["variants"].append((name, None, "%s: %s" % (type(e).__name__, str(e)[:100])))
    return out


def main(tier, replay):
    ck = common.Check("C13", "translation_validation", tier)
    if replay:
        jobs = [(1, common.load_replay(replay)["detail"]["seed"])]
    else:
        n = 120 if tier == "quick" else 3000
        jobs = [(i + 1, common.SEED * 7919 + i) for i in range(n)]
    with cf.ProcessPoolExecutor(max_workers=common.NCPU) as ex:
        outs = list(ex.map(one, jobs, chunksize=4))
    cases, meta = [], []
    import re
    for o in outs:
        if "build_exc" in o:
            ck.count("build_failed")
            continue
        ck.count("programs")
        ck.nontrivial(" ".join(o["features"]))
        for name, d, exc in o["variants"]:
            clause = "C13.append_equal" if name == "append_empty" else "C13.dict_equal"
            if d is None:
                ck.violation(clause, "%s :: from_dict raised %s%s" % (name, re.sub(r"\d+(\.\d+)?", "#", exc), " " + " ".join(o["tags"]) if o["tags"] else ""),
                             {"seed": o["seed"], "exc": exc})
                continue
            cases.append({"clause": clause, "x": o["d0"], "y": d})
            meta.append((o, name, d))
    verdicts = common.run_cases("Same", cases, check=ck)
    for gi, payload in verdicts:
        o, name, d = meta[gi]
        paths = diff_paths(o["d0"], d)
        gen = sorted({re.sub(r"\[\d+\]", "[]", p) for p in paths})[:4]
        ck.violation(cases[gi]["clause"], "%s :: %s%s" % (name, ", ".join(gen), " " + " ".join(o["tags"]) if o["tags"] else ""),
                     {"seed": o["seed"], "paths": paths[:10]})
    ck.cov["programs"] = ck.cov["counters"].get("programs", 0)
    ck.cov["disagreements_checked"] = len(cases)
    ck.cov["evaluations"] = len(cases)
    ck.cov["rule"] = ("random models (netgen) decorated with vertices on links of every type, tags, initial quality, coordinates, a "
                      "source, a rule with AND/OR condition, ELSE and priority, a level control; three round trips each (JSON text, "
                      "in-memory dict, append to an empty model); distinct by feature signature")
    if outs and "features" in outs[0]:
        ck.sample({"features": outs[0]["features"], "top_level_keys": sorted(outs[0]["d0"].keys())})
    if not replay and cases:
        bad = copy.deepcopy(cases[0])
        bad["y"]["name"] = "sghost"
        if not common.run_cases("Same", [bad], nproc=1):
            raise common.MachineryError("binding self-test: altered dictionary accepted")
    ck.assumptions += ["normalisation limited to what the property names: tuples->lists, empty pattern names, a junction "
                       "without demands returns with one zero demand"]
    return ck.finish()

"""setup: build the extension cache from /repo sources, run SANY on every spec module."""
import os
import sys
import common


def main():
    common.build_exts()
    bad = 0
    for f in sorted(os.listdir(common.SPEC)):
        if f.endswith(".tla"):
            ok, out = common.sany(f[:-4])
            if not ok:
                bad += 1
                print("SANY FAILED: %s\n%s" % (f, out[-1500:]))
    import dectest
    n = dectest.selftest()
    print('Dec.tla self-test: %d cases ok' % n)
    w = common.import_wntr()
    print("setup ok: wntr %s from %s; spec modules parsed" % (w.__version__, w.__file__))
    return 2 if bad else 0

"""C05 - reported states are consistent with every conditional simple control (trace validation).
Random networks with tanks and hysteresis pairs of tank-level controls, junction-pressure controls, setting controls,
priorities, two thresholds crossed in one step; every control x reported row is a clause instance of
Hydraulics!CtlConsistent, every pair of consecutive solved rows of Hydraulics!NoOvershoot."""
import random
import common
import hyd
import netgen


def main(tier, replay):
    ck = common.Check("C05", "model_checking", tier)
    rnd = random.Random(common.SEED + 505)
    props = ["C05"]
    if replay:
        scns = [common.load_replay(replay)["detail"]["scn"]]
    else:
        scns = []
        for i in range(200 if tier == "quick" else 5000):
            s = netgen.gen(rnd, i + 1, tank_bias=True, features={"tanks", "pumps", "valves", "patterns", "parallel", "cv", "minor",
                                                                  "level_controls", "vcurve"})
            if s["cctl"]:
                scns.append(s)
    good = hyd.validate(ck, "C05", scns, props)
    for s, rows in good:
        for c in s["cctl"]:
            trig = 0
            for r in rows:
                v = r["press"][c["node"]]
                if (v > c["thr"] + 1e-6) if c["rel"] == ">" else (v < c["thr"] - 1e-6):
                    trig += 1
            ck.count("control_row_instances", len(rows))
            ck.count("triggered_instances", trig)
            if 0 < trig < len(rows):
                ck.count("controls_switching_during_run")
        if any(r["t"] % s["H"] for r in rows):
            ck.count("traces_with_partial_step")
    if not replay:
        def mutate(s, rows):
            for c in s["cctl"]:
                if c["what"] != "status" or c["val"] != 0:
                    continue
                for r in rows:
                    v = r["press"][c["node"]]
                    if ((v > c["thr"] + 1e-3) if c["rel"] == ">" else (v < c["thr"] - 1e-3)) and r["status"][c["link"]] == 0 \
                       and not any(d is not c and d["link"] == c["link"] for d in s["cctl"]) \
                       and not any(s["links"][t["link"] - 1]["name"] == c["link"] for t in s["ctl"]):
                        r["status"][c["link"]] = 1
                        return "status of %s flipped although its closing control is triggered" % c["link"]
            return None
        hyd.selftest(ck, "C05", good, props, mutate)
        c = ck.cov["counters"]
        if not c.get("controls_switching_during_run") or not c.get("traces_with_partial_step"):
            ck.vacuity("vacuity: no control switched during a run / no partial step: %r" % c)
    hyd.finish_cov(ck, good, "random tank networks with hysteresis pairs of tank-level controls (open below lo / close above hi or the "
                   "reverse), extra thresholds crossed in the same step, junction-pressure controls, valve-setting controls, priorities "
                   "1..5; small tanks so that thresholds are crossed several times in 10-20 steps; every control x reported row and "
                   "every pair of consecutive rows is a clause instance")
    ck.assumptions += ["a value within 1e-6 of its threshold is an open outcome", "a commanded-open link may be held closed by its own "
                       "check valve, a pump's shut-off rule, an adjacent tank within 1 mm of a level limit or isolation",
                       "links that also have a time control are not asserted (C04 covers them)"]
    return ck.finish()

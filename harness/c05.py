"""C05 - reported states are consistent with every conditional simple control (trace validation).
Random networks with tanks and hysteresis pairs of tank-level controls, junction-pressure controls, setting controls,
priorities, two thresholds crossed in one step; every control x reported row is a clause instance of
Hydraulics!CtlConsistent, every pair of consecutive solved rows of Hydraulics!NoOvershoot."""
import random
import common
import hyd
import netgen
import runsim


# ----------------------------------------------------------------------------- bucket family (TankCtl.tla): M + R
LU = 0.5e-4            # one level unit in metres
FU = 0.005             # one flow unit in m3/s (tank area 100 m2: one flow unit moves the level one unit per second)
DIAM = 11.283791670955125   # 2*sqrt(100/pi)


def bucket_scenarios(rnd, n):
    out = []
    for k in range(n):
        lo, hi = rnd.choice([96001, 98001, 99001]), rnd.choice([102001, 105001, 109001])
        ctl = [{"rel": "<", "thr": lo, "val": 1, "prio": 3}, {"rel": ">", "thr": hi, "val": 0, "prio": rnd.choice([1, 3, 5])}]
        if rnd.random() < 0.5:      # a third threshold above, commanding the opposite with lower / equal / higher priority
            ctl.append({"rel": ">", "thr": rnd.choice([103001, 107001, 111001]), "val": 1, "prio": rnd.choice([1, 3, 5])})
        if rnd.random() < 0.3:      # a second low threshold (two thresholds crossed in one step while draining)
            ctl.append({"rel": "<", "thr": rnd.choice([93001, 95001]), "val": 1, "prio": 3})
        steps = rnd.choice([4, 5, 6])
        env = [{"fin": rnd.choice([2, 4]), "dout": rnd.choice([0, 2, 4])} for _ in range(steps + 1)]
        out.append({"id": k + 1, "H": 3600, "steps": steps, "ctl": ctl, "init": rnd.choice([98000, 100000, 104000]),
                    "st0": rnd.choice([0, 1]), "env": env})
    return out


def bucket_expected(scns, ck):
    import json, os
    import concurrent.futures as cf
    parts = common.chunks(scns, common.NCPU)
    cfg = ("SPECIFICATION Spec\nINVARIANT CtlConsistent\nINVARIANT NoOvershoot\nINVARIANT TankStep\nINVARIANT TimesIncrease\n"
           "INVARIANT TrialsBounded\nINVARIANT Emit\nCHECK_DEADLOCK FALSE\n")

    def one(part):
        wd = common.subdir("c05b_%d" % part[0]["id"])
        p = os.path.join(wd, "scn.json")
        with open(p, "w") as f:
            json.dump(part, f)
        return common.run_tlc("TankCtl", cfg, workers=1, env={"SCN": p, "EMIT": "1"}, workdir=wd)
    exp, bad = {}, []
    with cf.ThreadPoolExecutor(max_workers=common.NCPU) as ex:
        for r in ex.map(one, parts):
            ck.add_tlc(r)
            if r.violation:
                bad.append(r.out[-1500:])
            for tag, obj in r.prints:
                if tag == "ROWS":
                    exp[obj["id"]] = obj["rows"]
    return exp, bad


def bucket_observe(s):
    w = common.import_wntr()
    C = w.network.controls
    try:
        wn = w.network.WaterNetworkModel()
        wn.add_pattern("pin", [float(e["fin"]) for e in s["env"]])
        wn.add_pattern("pout", [float(e["dout"]) for e in s["env"]])
        late_diam = s["id"] % 4 == 1     # the tank is created wider; its diameter is assigned after the controls exist
        wn.add_tank("T", elevation=0.0, init_level=s["init"] * LU, min_level=0.0, max_level=30.0, diameter=DIAM * (1.5 if late_diam else 1.0))
        wn.add_junction("JD", base_demand=FU, demand_pattern="pout", elevation=0.0)
        wn.add_junction("JS", base_demand=-FU, demand_pattern="pin", elevation=0.0)
        wn.add_pipe("PD", "T", "JD", length=10.0, diameter=0.6, roughness=130)
        wn.add_pipe("L", "JS", "T", length=10.0, diameter=0.6, roughness=130, initial_status="OPEN" if s["st0"] else "CLOSED")
        t = wn.options.time
        t.hydraulic_timestep = t.pattern_timestep = s["H"]
        t.report_timestep = "ALL"
        t.duration = s["steps"] * s["H"]
        for i, c in enumerate(s["ctl"]):
            act = C.ControlAction(wn.get_link("L"), "status", w.network.LinkStatus.Open if c["val"] else w.network.LinkStatus.Closed)
            cnd = C.ValueCondition(wn.get_node("T"), "level", c["rel"], c["thr"] * LU)
            if s["id"] % 4 == 3:
                # the control is created on another condition and gets the tank-level condition through update_condition
                ctl = C.Control(C.ValueCondition(wn.get_node("JD"), "pressure", "<", -1000.0), act, priority=c["prio"])
                ctl.update_condition(cnd)
            else:
                ctl = C.Control(cnd, act, priority=c["prio"])
            wn.add_control("c%d" % i, ctl)
        if late_diam:
            wn.get_node("T").diameter = DIAM
        import simnet
        res, _ = simnet.run_wntr(w, wn)
        if res.error_code is not None:
            return {"id": s["id"], "err": True}
        return {"id": s["id"], "rows": [{"t": int(tt), "level": float(res.node["pressure"]["T"].iloc[i]) / LU,
                                          "st": int(res.link["status"]["L"].iloc[i] != 0)}
                                         for i, tt in enumerate(res.node["pressure"].index)]}
    except Exception as e:
        return {"id": s["id"], "exc": "%s: %s" % (type(e).__name__, str(e)[:120])}


def bucket_family(ck, tier, rnd):
    import concurrent.futures as cf
    scns = bucket_scenarios(rnd, 400 if tier == "quick" else 12000)
    exp, bad = bucket_expected(scns, ck)
    for b in bad:
        ck.violation("C05.model", "TankCtl.tla invariant violated", {"tlc": b})
    with cf.ProcessPoolExecutor(max_workers=common.NCPU) as ex:
        obs = list(ex.map(bucket_observe, scns, chunksize=8))
    for s, o in zip(scns, obs):
        e = exp.get(s["id"])
        if e is None:
            continue
        shape = "ctl=%s st0=%d" % ("/".join("%s%d:%d@%d" % (c["rel"], c["thr"], c["val"], c["prio"]) for c in s["ctl"]), s["st0"])
        if "exc" in o or o.get("err"):
            ck.violation("C05.bucket_run", shape + " :: " + o.get("exc", "not converged"), {"bucket": s})
            continue
        ck.count("bucket_runs")
        if any(r["t"] % s["H"] for r in e):
            ck.count("bucket_runs_with_partial_step")
        got = [(r["t"], r["st"]) for r in o["rows"]]
        want = [(r["t"], r["st"]) for r in e]
        if got != want:
            ck.violation("C05.bucket_timeline", "%s :: times/statuses %s expected %s" % (shape, got[:8], want[:8]), {"bucket": s, "expected": e})
        elif any(abs(a["level"] - b["level"]) > 0.02 for a, b in zip(o["rows"], e)):
            ck.violation("C06.bucket_levels", shape + " :: levels differ from the Euler integration of the model", {"bucket": s, "expected": e})
        ck.nontrivial(["bucket", s["ctl"], s["env"], s["init"], s["st0"]])
    return len(scns)


def isolation_scenario(rnd, sid):
    """a dead-end junction that a tank-level control cuts off, with a pressure control on it that must open a stand-by pipe
    in the very step in which its (zeroed) pressure first satisfies the condition"""
    import c02
    s = c02.base(sid, rnd.choice(["default", "piecewise"]))
    s["patterns"] = {}
    s["H"] = rnd.choice([1800, 3600])
    s["Pat"] = s["H"]
    s["Dur"] = s["H"] * rnd.randint(6, 10)
    s["Rs"] = rnd.choice([360, 700])
    lvl0 = netgen.rgrid(rnd, 2, 3, 0.25)
    s["nodes"] = [{"name": "R0", "type": "R", "elev": 0.0, "head": netgen.rgrid(rnd, 60, 80, 5), "pat": ""},
                  {"name": "T0", "type": "T", "elev": 30.0, "minl": 0.0, "maxl": 12.0, "init": lvl0, "diam": netgen.rgrid(rnd, 4, 8, 1),
                   "vcurve": [], "leak": {"on": False, "area": 0.0, "cd": 0.75, "start": -1, "end": -1}},
                  c02.junction("J0", 5.0, [{"base": 0.002, "pat": ""}]), c02.junction("J1", 5.0, [{"base": 0.003, "pat": ""}]),
                  c02.junction("JX", netgen.rgrid(rnd, 0, 10, 2.5), [{"base": netgen.rgrid(rnd, 0.001, 0.004, 0.001), "pat": ""}])]

    def pipe(name, a, b, init=1, L=300.0, d=0.3):
        return {"name": name, "type": "pipe", "a": a, "b": b, "len": L, "diam": d, "rough": 100.0, "minor": 0.0, "cv": False, "init": init}
    s["links"] = [pipe("P0", "R0", "J0", L=netgen.rgrid(rnd, 500, 1500, 100), d=0.25), pipe("P1", "J0", "J1"), pipe("PT", "J0", "T0", d=0.4),
                  pipe("PX", "J1", "JX"), pipe("P3", "J0", "JX", init=0)]
    s["cctl"] = [{"node": "T0", "attr": "level", "rel": ">", "thr": lvl0 + netgen.rgrid(rnd, 0.5, 2.5, 0.25), "link": "PX", "what": "status",
                  "val": 0, "prio": 3},
                 {"node": "JX", "attr": "pressure", "rel": "<", "thr": netgen.rgrid(rnd, 5, 15, 2.5), "link": "P3", "what": "status",
                  "val": 1, "prio": 3}]
    return s


def main(tier, replay):
    ck = common.Check("C05", "model_checking", tier)
    rnd = random.Random(common.SEED + 505)
    props = ["C05"]
    if not replay:
        nb = bucket_family(ck, tier, rnd)
        ck.cov["traces_validated_against_impl"] += ck.cov["counters"].get("bucket_runs", 0)
        # the whole control loop (RunSim.tla): level controls together with time controls and rules on the same links
        rs = runsim.scenarios(rnd, 320 if tier == "quick" else 10000)
        ck.cov["traces_validated_against_impl"] += runsim.family(ck, "C05", rs)
        runsim.selftest(ck, rs)
        # ... and with a FREE environment: TLC chooses the flows of every hydraulic interval, i.e. every evolution of the level
        runsim.free_environment(ck, "C05", rnd, 16 if tier == "quick" else 128, 3 if tier == "quick" else 4)
    if replay and "runsim" in common.load_replay(replay)["detail"]:
        runsim.family(ck, "C05", [common.load_replay(replay)["detail"]["runsim"]])
        return ck.finish()
    if replay and "bucket" in common.load_replay(replay)["detail"]:
        b = common.load_replay(replay)["detail"]["bucket"]
        exp, bad = bucket_expected([b], ck)
        o = bucket_observe(b)
        if [(r["t"], r["st"]) for r in o.get("rows", [])] != [(r["t"], r["st"]) for r in exp[b["id"]]]:
            ck.violation("C05.bucket_timeline", "replay", {"bucket": b})
        scns = []
    elif replay:
        scns = [common.load_replay(replay)["detail"]["scn"]]
    else:
        scns = []
        for i in range(200 if tier == "quick" else 5000):
            s = netgen.gen(rnd, i + 1, tank_bias=True, features={"tanks", "pumps", "valves", "patterns", "parallel", "cv", "minor",
                                                                  "level_controls", "vcurve"})
            if s["cctl"]:
                s["late_diam"] = (i % 4 == 1)       # tank diameters assigned after the controls were created
                scns.append(s)
        scns += [isolation_scenario(rnd, 8000 + i) for i in range(30 if tier == "quick" else 600)]
    good = hyd.validate(ck, "C05", scns, props)
    for s, rows in good:
        for c in s["cctl"]:
            trig = 0
            for r in rows:
                v = r["press"][c["node"]]
                if (v > c["thr"] + 1e-6) if c["rel"] == ">" else (v < c["thr"] - 1e-6):
                    trig += 1
            ck.count("control_row_instances", len(rows))
            ck.count("triggered_instances", trig)
            if 0 < trig < len(rows):
                ck.count("controls_switching_during_run")
        if any(r["t"] % s["H"] for r in rows):
            ck.count("traces_with_partial_step")
    if not replay:
        def mutate(s, rows):
            for c in s["cctl"]:
                if c["what"] != "status" or c["val"] != 0:
                    continue
                for r in rows:
                    v = r["press"][c["node"]]
                    if ((v > c["thr"] + 1e-3) if c["rel"] == ">" else (v < c["thr"] - 1e-3)) and r["status"][c["link"]] == 0 \
                       and not any(d is not c and d["link"] == c["link"] for d in s["cctl"]) \
                       and not any(s["links"][t["link"] - 1]["name"] == c["link"] for t in s["ctl"]):
                        r["status"][c["link"]] = 1
                        return "status of %s flipped although its closing control is triggered" % c["link"]
            return None
        hyd.selftest(ck, "C05", good, props, mutate)
        c = ck.cov["counters"]
        if not c.get("controls_switching_during_run") or not c.get("traces_with_partial_step"):
            ck.vacuity("vacuity: no control switched during a run / no partial step: %r" % c)
    hyd.finish_cov(ck, good, "random tank networks with hysteresis pairs of tank-level controls (open below lo / close above hi or the "
                   "reverse), extra thresholds crossed in the same step, junction-pressure controls, valve-setting controls, priorities "
                   "1..5; small tanks so that thresholds are crossed several times in 10-20 steps; every control x reported row and "
                   "every pair of consecutive rows is a clause instance")
    ck.assumptions += ["a value within 1e-6 of its threshold is an open outcome", "a commanded-open link may be held closed by its own "
                       "check valve, a pump's shut-off rule, an adjacent tank within 1 mm of a level limit or isolation",
                       "links that also have a time control are not asserted (C04 covers them)"]
    return ck.finish()

"""C20 - demand, resilience and pump-cost metrics equal their documented formulas.
Seeded small cases: patterns of length 1..9 (also lengths that do not divide 24 h), pattern step / start grids, several
demand categories, synthetic result tables with grid values, efficiencies, prices, thresholds, pipe / tank / PRV / pump
sizes on both sides of every table bucket boundary.  The wntr.metrics functions are called on a real model and real
DataFrames; TLC (Metrics.tla) recomputes every value in exact rational arithmetic.  expected_demand is additionally
compared with the demand WNTRSimulator delivers in demand-driven mode."""
import concurrent.futures as cf
import copy
import random
import common
from common import num


def demand_case(seed):
    w = common.import_wntr()
    import pandas as pd
    rnd = random.Random(seed)
    wn = w.network.WaterNetworkModel()
    Pat = rnd.choice([900, 1800, 3600, 7200, 10800])
    PatStart = rnd.choice([0, 0, Pat, 2 * Pat, Pat // 2 if Pat % 2 == 0 else Pat])
    DM = rnd.choice([1.0, 0.5, 1.25, 2.0])
    wn.options.time.pattern_timestep = Pat
    wn.options.time.pattern_start = PatStart
    rep = rnd.choice([Pat, Pat, 2 * Pat, 3 * Pat, Pat // 2])       # also coarser / finer than the pattern step
    wn.options.time.hydraulic_timestep = min(Pat, rep)
    wn.options.time.report_timestep = rep
    wn.options.hydraulic.demand_multiplier = DM
    import math
    while True:
        pats = {}
        for k in range(rnd.randint(1, 3)):
            n = rnd.choice([1, 2, 3, 4, 5, 6, 7, 8, 9, 12, 24])
            pats["P%d" % k] = [rnd.randint(0, 8) / 4.0 for _ in range(n)]
        period = 86400
        for v in pats.values():
            period = period * (len(v) * Pat) // math.gcd(period, len(v) * Pat)
        if period // Pat <= 400:          # keeps the exact average cheap to recompute
            break
    for k, v in pats.items():
        wn.add_pattern(k, v)
    wn.add_reservoir("R", base_head=80.0)
    juncs = []
    prev = "R"
    for j in range(rnd.randint(1, 3)):
        name = "J%d" % j
        dem = [{"base": rnd.randint(1, 16) * 0.0005, "pat": rnd.choice(list(pats) + [""]), "cat": rnd.choice(["", "c", "d"])}
               for _ in range(rnd.randint(1, 3))]
        wn.add_junction(name, base_demand=dem[0]["base"], demand_pattern=dem[0]["pat"] or None, elevation=5.0,
                        demand_category=dem[0]["cat"] or None)
        for e in dem[1:]:
            wn.get_node(name).add_demand(e["base"], e["pat"] or None, e["cat"] or None)
        wn.add_pipe("p%d" % j, prev, name, length=200.0, diameter=0.4, roughness=120)
        prev = name
        juncs.append({"name": name, "dem": [{"base": num(e["base"]), "pat": e["pat"], "cat": e["cat"]} for e in dem]})
    dur = Pat * rnd.randint(3, 12)
    wn.options.time.duration = dur
    out = {"kind": "demand", "Pat": Pat, "PatStart": PatStart, "DM": num(DM),
           "patterns": {k: [num(x) for x in v] for k, v in pats.items()}, "juncs": juncs, "seed": seed,
           "R": num(0.00000876157), "lens": sorted(len(v) for v in pats.values()), "cat": rnd.choice(["c", "d"])}
    try:
        ed = w.metrics.expected_demand(wn)
        out["times"] = [int(t) for t in ed.index]
        avg = w.metrics.average_expected_demand(wn)
        pop = w.metrics.population(wn)
        edc = w.metrics.expected_demand(wn, category=out["cat"])
        avgc = w.metrics.average_expected_demand(wn, category=out["cat"])
        out["obs"] = {"expected": {j["name"]: [num(float(x)) for x in ed[j["name"]]] for j in juncs},
                      "avg": {j["name"]: num(float(avg[j["name"]])) for j in juncs},
                      "expected_cat": {j["name"]: [num(float(x)) for x in edc[j["name"]]] for j in juncs},
                      "avg_cat": {j["name"]: num(float(avgc[j["name"]])) for j in juncs},
                      "pop": {j["name"]: int(pop[j["name"]]) for j in juncs}}
        # C20.matches_simulator: demand delivered by WNTRSimulator in DD mode at the same times
        import warnings
        with warnings.catch_warnings():
            warnings.simplefilter("ignore")
            res = w.sim.WNTRSimulator(wn).run_sim()
        sim = res.node["demand"]
        worst = 0.0
        for j in juncs:
            for t in out["times"]:
                if t in sim.index:
                    worst = max(worst, abs(float(sim.loc[t, j["name"]]) - float(ed.loc[t, j["name"]])))
        out["sim_mismatch"] = worst
    except Exception as e:
        out["exc"] = "%s: %s" % (type(e).__name__, str(e)[:120])
    return out


def resilience_case(seed):
    w = common.import_wntr()
    import pandas as pd
    rnd = random.Random(seed)
    wn = w.network.WaterNetworkModel()
    nres = rnd.choice([1, 2])
    npump = rnd.choice([1, 2])
    nj = rnd.randint(2, 4)
    for r in range(nres):
        wn.add_reservoir("R%d" % r, base_head=60.0)
    wn.add_tank("T0", elevation=30.0, init_level=3.0, min_level=0.0, max_level=rnd.choice([6.0, 8.0, 10.0]), diameter=rnd.choice([8.0, 12.0]))
    for j in range(nj):
        wn.add_junction("J%d" % j, base_demand=0.002, elevation=rnd.randint(0, 8) * 2.5)
        wn.add_pipe("p%d" % j, "R0" if j == 0 else "J%d" % (j - 1), "J%d" % j, length=100.0, diameter=0.3, roughness=100)
    wn.add_pipe("pt", "J0", "T0", length=100.0, diameter=0.3, roughness=100)
    pumps = []
    for p in range(npump):
        a, b = "R%d" % (p % nres), "J%d" % rnd.randrange(nj)
        if rnd.random() < 0.5:
            wn.add_pump("U%d" % p, a, b, pump_type="POWER", pump_parameter=5000.0)
        else:
            wn.add_curve("cu%d" % p, "HEAD", [(0.01, 40.0), (0.05, 20.0)])
            wn.add_pump("U%d" % p, a, b, pump_type="HEAD", pump_parameter="cu%d" % p)
        pumps.append({"name": "U%d" % p, "a": a, "b": b})
    eff = rnd.choice([50.0, 65.0, 75.0, 100.0])
    price = rnd.choice([3.61e-8, 1e-7, 2.5e-8])
    for p in pumps:                     # some pumps have their own energy price (others use the global one)
        own = rnd.choice([None, None, 9e-8, 5e-8])
        if own is not None:
            wn.get_link(p["name"]).energy_price = own
        p["price"] = num(own if own is not None else price)
    Rep = rnd.choice([900, 1800, 3600])
    wn.options.energy.global_efficiency = eff
    wn.options.energy.global_price = price
    wn.options.time.report_timestep = Rep
    Pstar = rnd.choice([15.0, 20.0, 30.0])
    times = [k * Rep for k in range(rnd.randint(2, 4))]
    nodes = wn.node_name_list
    elev = {n: (wn.get_node(n).elevation if wn.get_node(n).node_type != "Reservoir" else 0.0) for n in nodes}
    head = pd.DataFrame({n: [elev[n] + rnd.randint(40, 160) * 0.25 for _ in times] for n in nodes}, index=times)
    pressure = pd.DataFrame({n: [head.loc[t, n] - elev[n] for t in times] for n in nodes}, index=times)
    # reservoirs mostly supply (negative demand) but one may also receive water at some times
    demand = pd.DataFrame({n: [(rnd.choice([-1, -1, -1, 1]) if n.startswith("R") else 1) * rnd.randint(1, 40) * 0.0005 for _ in times]
                           for n in nodes}, index=times)
    expected = pd.DataFrame({n: [rnd.randint(1, 40) * 0.0005 for _ in times] for n in wn.junction_name_list}, index=times)
    flow = pd.DataFrame({l: [rnd.randint(-20, 60) * 0.0005 for _ in times] for l in wn.link_name_list}, index=times)
    J = list(wn.junction_name_list)
    out = {"kind": "resilience", "juncs": J, "res": list(wn.reservoir_name_list),
           "tanks": [{"name": "T0", "maxl": num(wn.get_node("T0").max_level)}], "pumps": pumps, "Pstar": num(Pstar), "eff": num(eff),
           "price": num(price), "Rep": Rep, "seed": seed,
           "head": [{n: num(float(head.loc[t, n])) for n in nodes} for t in times],
           "pressure": [{n: num(float(pressure.loc[t, n])) for n in nodes} for t in times],
           "demand": [{n: num(float(demand.loc[t, n])) for n in nodes} for t in times],
           "expected": [{n: num(float(expected.loc[t, n])) for n in J} for t in times],
           "flow": [{l: num(float(flow.loc[t, l])) for l in wn.link_name_list} for t in times]}
    try:
        M = w.metrics
        tod = M.todini_index(head, pressure, demand, flow, wn, Pstar)
        elev_s = pd.Series({j: elev[j] for j in J})
        mri = M.modified_resilience_index(pressure[J], elev_s, Pstar)
        mri_sys = M.modified_resilience_index(pressure[J], elev_s, Pstar, demand=demand[J], per_junction=False)
        wsa = M.water_service_availability(expected, demand[J])
        tc = M.tank_capacity(pressure[["T0"]], wn)
        pw = M.pump_power(flow, head, wn)
        en = M.pump_energy(flow, head, wn)
        co = M.pump_cost(en, wn)
        out["obs"] = {"todini": [num(float(tod.loc[t])) for t in times],
                      "mri": [{j: num(float(mri.loc[t, j])) for j in J} for t in times],
                      "mri_sys": [num(float(mri_sys.loc[t])) for t in times],
                      "wsa": [{j: num(float(wsa.loc[t, j])) for j in J} for t in times],
                      "tank_cap": [{"T0": num(float(tc.loc[t, "T0"]))} for t in times],
                      "power": [{p["name"]: num(float(pw.loc[t, p["name"]])) for p in pumps} for t in times],
                      "energy": [{p["name"]: num(float(en.loc[t, p["name"]])) for p in pumps} for t in times],
                      "cost": [{p["name"]: num(float(co.loc[t, p["name"]])) for p in pumps} for t in times]}
    except Exception as e:
        out["exc"] = "%s: %s" % (type(e).__name__, str(e)[:120])
    return out


def cost_case(seed):
    w = common.import_wntr()
    rnd = random.Random(seed)
    wn = w.network.WaterNetworkModel()
    wn.add_reservoir("R", base_head=50.0)
    for j in range(6):
        wn.add_junction("J%d" % j, base_demand=0.001, elevation=1.0)
    inches = [4, 6, 8, 10, 12, 14, 16, 18, 20, 24, 28, 30]
    pipes, tanks, prvs, pp, hp = [], [], [], [], []
    for k in range(rnd.randint(1, 5)):
        a = rnd.choice(inches)
        # a diameter near a bucket boundary (midpoint +- 1 mm) or far outside the table
        d = rnd.choice([a * 0.0254, (a + 1) * 0.0254 + rnd.choice([-0.001, 0.001]), 0.05, 0.9, a * 0.0254 + 0.004])
        d = float("%.4f" % d)
        L = float(rnd.randint(1, 40) * 25)
        wn.add_pipe("p%d" % k, "R" if k == 0 else "J%d" % (k - 1), "J%d" % k, length=L, diameter=d, roughness=100)
        pipes.append({"diam": num(d), "len": num(L)})
    for k in range(rnd.randint(0, 2)):
        diam, maxl = rnd.choice([8.0, 12.0, 15.0, 20.0, 25.0]), rnd.choice([4.0, 8.0, 12.0, 20.0])
        wn.add_tank("T%d" % k, elevation=20.0, init_level=2.0, min_level=0.0, max_level=maxl, diameter=diam)
        wn.add_pipe("pt%d" % k, "J0", "T%d" % k, length=10.0, diameter=0.3048, roughness=100)
        pipes.append({"diam": num(0.3048), "len": num(10.0)})
        tanks.append({"diam": num(diam), "maxl": num(maxl)})
    for k in range(rnd.randint(0, 2)):
        d = float("%.4f" % (rnd.choice(inches) * 0.0254 + rnd.choice([0.0, 0.02, -0.02])))
        wn.add_valve("v%d" % k, "J4", "J5", diameter=d, valve_type="PRV", initial_setting=20.0)
        prvs.append({"diam": num(d)})
    for k in range(rnd.randint(0, 2)):          # valves of other types cost nothing in the documented table (PRVs only)
        wn.add_valve("w%d" % k, "J3", "J4", diameter=rnd.choice([0.2, 0.3, 0.4572]), valve_type=rnd.choice(["TCV", "FCV", "PSV"]),
                     initial_setting=rnd.choice([0.01, 10.0]))
    for k in range(rnd.randint(0, 2)):
        P = float(rnd.choice([5000, 8000, 12700, 17000, 18000, 24000, 28000, 30000, 41000, 60000]))
        wn.add_pump("pp%d" % k, "R", "J%d" % k, pump_type="POWER", pump_parameter=P)
        pp.append({"power": num(P)})
    for k in range(rnd.randint(0, 2)):
        Q0, Q1, H0, H1 = 0.01, rnd.choice([0.05, 0.08, 0.12]), rnd.choice([40.0, 60.0, 90.0]), rnd.choice([10.0, 20.0])
        wn.add_curve("c%d" % k, "HEAD", [(Q0, H0), (Q1, H1)])
        wn.add_pump("hp%d" % k, "R", "J%d" % (k + 2), pump_type="HEAD", pump_parameter="c%d" % k)
        B = (H0 - H1) / (Q1 - Q0)
        hp.append({"A": num(H0 + B * Q0), "B": num(B)})
    eff = rnd.choice([50.0, 75.0, 80.0, 100.0])
    wn.options.energy.global_efficiency = eff
    out = {"kind": "cost", "pipes": pipes, "tanks": tanks, "prvs": prvs, "ppumps": pp, "hpumps": hp, "eff": num(eff), "seed": seed}
    try:
        out["obs"] = {"cost": num(float(w.metrics.annual_network_cost(wn))), "ghg": num(float(w.metrics.annual_ghg_emissions(wn)))}
    except Exception as e:
        out["exc"] = "%s: %s" % (type(e).__name__, str(e)[:120])
    return out


def cost_with_percent_efficiency(o):
    """the network cost one gets when the maximum pump power is divided by global_efficiency AS STORED (percent, e.g. 75)
    instead of as a fraction (0.75) - used only to recognise the known finding precisely"""
    import numpy as np
    un = lambda x: float(common.unnum(x))
    inch = np.array([4, 6, 8, 10, 12, 14, 16, 18, 20, 24, 28, 30]) * 0.0254
    pc = [8.31, 10.1, 12.1, 12.96, 15.22, 16.62, 19.41, 22.2, 24.66, 35.69, 40.08, 42.6]
    prv = [323, 529, 779, 1113, 1892, 2282, 4063, 4452, 4564, 5287, 6122, 6790]
    tv, tc = np.array([500, 1000, 2000, 3750, 5000, 10000]), [14020, 30640, 61210, 87460, 122420, 174930]
    pm, pco = np.array([11310, 22620, 24880, 31670, 38000, 45240, 49760, 54280, 59710]), [2850, 3225, 3307, 3563, 3820, 4133, 4339, 4554, 4823]
    eff = un(o["eff"])
    c = sum(pc[int(np.argmin(abs(inch - un(p["diam"]))))] * un(p["len"]) for p in o["pipes"])
    c += sum(tc[int(np.argmin(abs(tv - np.pi * (un(t["diam"]) / 2) ** 2 * un(t["maxl"]))))] for t in o["tanks"])
    c += sum(prv[int(np.argmin(abs(inch - un(v["diam"]))))] for v in o["prvs"])
    c += sum(pco[int(np.argmin(abs(pm - un(p["power"]) / eff)))] for p in o["ppumps"])
    c += sum(pco[int(np.argmin(abs(pm - 9810 * un(p["A"]) ** 2 / (4 * un(p["B"])) / eff)))] for p in o["hpumps"])
    return c


KINDS = {"demand": demand_case, "resilience": resilience_case, "cost": cost_case}


def run(job):
    return KINDS[job[0]](job[1])


def main(tier, replay):
    ck = common.Check("C20", "model_checking", tier)
    if replay:
        d = common.load_replay(replay)["detail"]
        jobs = [(d["kind"], d["seed"])]
    else:
        n = 160 if tier == "quick" else 6000
        jobs = [(k, common.SEED * 31337 + i) for i in range(n) for k in ("demand", "resilience", "cost")]
    with cf.ProcessPoolExecutor(max_workers=common.NCPU) as ex:
        outs = list(ex.map(run, jobs, chunksize=8))
    cases, meta = [], []
    if sum(1 for o in outs if "exc" in o and "non-finite" in o["exc"]) > max(2, len(outs) // 50):
        ck.vacuity("vacuity: more than 2 % of the metric cases evaluate to a non-finite value")
    for o in outs:
        if "exc" in o and "non-finite value cannot be logged" in o["exc"]:
            # a formula whose denominator is exactly zero on the synthetic tables (x/0): undefined, not asserted
            ck.count("degenerate_division_by_zero")
            continue
        if "exc" in o:
            ck.violation("C20.run", "%s :: %s" % (o["kind"], o["exc"]), {"kind": o["kind"], "seed": o["seed"]})
            continue
        if o["kind"] == "demand":
            ck.count("demand_cases")
            if any(86400 % (n * o["Pat"]) for n in o["lens"]):
                ck.count("pattern_period_not_dividing_24h")
            if o["PatStart"]:
                ck.count("pattern_start_nonzero")
            if o["sim_mismatch"] > 1e-9:
                ck.violation("C20.matches_simulator", "expected_demand differs from the DD simulator by %.3g (pattern_start=%s)" % (
                    o["sim_mismatch"], "0" if not o["PatStart"] else "nonzero"), {"kind": "demand", "seed": o["seed"]})
        cases.append({k: v for k, v in o.items() if k not in ("seed", "lens", "sim_mismatch")})
        meta.append(o)
        ck.nontrivial([o["kind"], o["seed"]])
    for gi, payload in common.run_cases("Metrics", cases, check=ck):
        o = meta[gi]
        for cl in common.parse_set(payload):
            name = cl.split("@")[0]
            extra = ""
            if o["kind"] == "demand":
                extra = " pattern_start=%s period_divides_24h=%s" % ("0" if not o["PatStart"] else "nonzero",
                                                                      not any(86400 % (n * o["Pat"]) for n in o["lens"]))
            if name == "C20.network_cost":
                alt = cost_with_percent_efficiency(o)
                obs = float(common.unnum(o["obs"]["cost"]))
                extra = " pumps=%s%s" % (bool(o["hpumps"] or o["ppumps"]),
                                         " [equals the cost with pump power divided by the efficiency in percent]"
                                         if abs(alt - obs) <= 1e-6 * max(1.0, abs(obs)) else "")
            ck.violation(name, name + " ::" + extra, {"kind": o["kind"], "seed": o["seed"]})
    ck.cov["evaluations"] = len(cases)
    ck.cov["traces_validated_against_impl"] = len(cases)
    ck.cov["rule"] = ("seeded cases of three kinds: demand (1-3 junctions, 1-3 categories, patterns of length 1..24 on steps 900..10800 s "
                      "incl. periods that do not divide 24 h, pattern_start, demand multiplier), resilience (synthetic head / pressure / "
                      "demand / flow tables, 1-2 reservoirs, 1-2 pumps, tank; efficiencies, prices, Pstar), cost (pipe / PRV diameters "
                      "and pump powers on both sides of the table bucket boundaries and outside the tables, tanks); all distinct")
    if cases:
        ck.sample({k: cases[0][k] for k in ("kind", "Pat", "PatStart") if k in cases[0]})
    if not replay and cases:
        bad = copy.deepcopy(next(c for c in cases if c["kind"] == "cost"))
        bad["obs"]["cost"] = num(float(common.unnum(bad["obs"]["cost"])) * 1.001)
        if not common.run_cases("Metrics", [bad], nproc=1):
            raise common.MachineryError("binding self-test: perturbed cost accepted")
        if not ck.cov["counters"].get("pattern_period_not_dividing_24h"):
            ck.vacuity("vacuity: no pattern period that does not divide 24 h")
    ck.assumptions += ["global_efficiency is stored in percent (EPANET convention); documented maximum-pump-power formula with "
                       "eff = global efficiency as a fraction", "head pumps in cost cases use two-point curves (C = 1), for which the "
                       "maximum of rho*g*q*H is the rational 9810*A^2/(4B)"]
    return ck.finish()

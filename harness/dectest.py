"""Self-test of spec/Dec.tla against Python exact arithmetic (run by setup)."""
import random
from decimal import Decimal
from fractions import Fraction as F
import common


def selftest(n=150, seed=1):
    rnd = random.Random(seed)
    cases = []

    def r():
        k = rnd.choice([0, 1, 3, 8, 17])
        if k == 0:
            return 0.0
        return float(("%." + str(k) + "g") % (rnd.uniform(-1, 1) * 10 ** rnd.randint(-8, 8)))
    for _ in range(n):
        x, y = r(), r()
        fx, fy = F(Decimal(repr(x))), F(Decimal(repr(y)))
        for op, z in (("add", fx + fy), ("sub", fx - fy), ("mul", fx * fy)):
            cases.append({"op": op, "x": common.num(x), "y": common.num(y), "z": common.num(z)})
        cases.append({"op": "cmp", "x": common.num(x), "y": common.num(y), "r": (fx > fy) - (fx < fy)})
    for _ in range(n // 2):
        x = abs(r()) or 1.5
        p, q = rnd.choice([(463, 250), (4871, 1000), (1, 2), (3, 10), (2, 1), (11, 20)])
        y = x ** (p / q)
        for pert, ok in ((0, True), (3e-6, False), (1e-3, False), (-1e-2, False)):
            cases.append({"op": "pow", "x": common.num(x), "y": common.num(y * (1 + pert)), "p": p, "q": q,
                          "k": 1000000, "ok": ok})
    one, three = common.num(1), common.num(3)
    cases.append({"op": "rclose", "x": common.num(1 / 3), "y": one, "z": three, "atol": common.num(0),
                  "rtol": common.num(1e-12), "ok": True})
    cases.append({"op": "rclose", "x": common.num(0.3334), "y": one, "z": three, "atol": common.num(0),
                  "rtol": common.num(1e-12), "ok": False})
    import math
    zero = common.num(0)
    for name, val, rel in (("Pi2G", 9.81 * math.pi ** 2, 1e-10), ("Pi4", math.pi / 4, 1e-12), ("Q2Pow", 0.0004 ** 1.852, 1e-4),
                           ("Qtol", 2.83168e-6, 1e-12), ("TwoG", 19.62, 1e-12)):
        cases.append({"op": "const", "name": name, "x": common.num(val), "y": common.num(rel)})
    v = common.run_cases("DecTest", cases, nproc=4)
    if v:
        raise common.MachineryError("Dec.tla self-test failed on %d cases, e.g. %r" % (len(v), cases[v[0][0]]))
    return len(cases)

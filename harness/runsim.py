"""RunSim.tla family (M + R): the whole control loop of run_sim - time controls, tank-level controls and rules with time and
level atoms on the same links - against an adversarial hydraulic environment.  TLC checks the invariants of the model on
every scenario and emits the expected accepted rows; the same scenarios are run on a real 'bucket' network whose flows are
exactly the environment's, and the rows must agree in time and status (and in level up to integration noise)."""
import concurrent.futures as cf
import json
import os
import common

LU = 0.5e-4            # one level unit in metres
FU = 0.005             # one flow unit in m3/s (tank area 100 m2: one flow unit moves the level one unit per second)
DIAM = 11.283791670955125   # 2*sqrt(100/pi)

INVARIANTS = ["CtlConsistent", "NoOvershoot", "TimeCtlExact", "TankStep", "TimesIncrease", "TrialsBounded", "GridSolved"]


def _level_atom(rnd):
    return {"op": "atom", "t": "level", "rel": rnd.choice([">", "<"]), "thr": rnd.choice([93001, 97001, 99001, 101001, 103001, 107001])}


def _time_atom(rnd, H, steps):
    return {"op": "atom", "t": "time", "rel": rnd.choice([">=", "<", ">", "<="]),
            "thr": rnd.choice([H, 2 * H, H + 900, 2 * H + 1000, 3 * H - 600, H // 2, 3 * H + 1234])}


def _cond(rnd, H, steps):
    r = rnd.random()
    if r < 0.35:
        return _level_atom(rnd)
    if r < 0.5:
        return _time_atom(rnd, H, steps)
    a, b = rnd.choice([(_level_atom, _time_atom), (_level_atom, _level_atom), (_time_atom, _level_atom)])
    mk = lambda f: f(rnd) if f is _level_atom else f(rnd, H, steps)
    return {"op": rnd.choice(["and", "or"]), "a": mk(a), "b": mk(b)}


def scenarios(rnd, n):
    out = []
    for k in range(n):
        H = 3600
        steps = rnd.choice([4, 5, 6])
        nl = rnd.choice([1, 2, 2])
        shape = rnd.choice(["level-only", "mixed", "mixed", "rules"])
        ctl = []
        lo, hi = rnd.choice([96001, 98001, 99001]), rnd.choice([102001, 105001, 109001])
        l0 = rnd.randint(1, nl)
        ctl.append({"kind": "level", "rel": "<", "thr": lo, "link": l0, "val": 1, "prio": 3})
        ctl.append({"kind": "level", "rel": ">", "thr": hi, "link": l0, "val": 0, "prio": rnd.choice([1, 3, 5])})
        if rnd.random() < 0.5:
            ctl.append({"kind": "level", "rel": rnd.choice(["<", ">"]), "thr": rnd.choice([95001, 100001, 103001, 107001]),
                        "link": rnd.randint(1, nl), "val": rnd.choice([0, 1]), "prio": rnd.choice([1, 3, 5])})
        rules = []
        if shape in ("mixed", "rules"):
            for _ in range(rnd.randint(1, 2)):
                ctl.append({"kind": "time", "rel": "=", "thr": rnd.choice([0, H, 2 * H, H + 700, 2 * H + 1800, 3 * H + 1, 4 * H - 300, 1000]),
                            "link": rnd.randint(1, nl), "val": rnd.choice([0, 1]), "prio": rnd.choice([1, 3, 5])})
        if shape == "rules" or (shape == "mixed" and rnd.random() < 0.5):
            for _ in range(rnd.randint(1, 2)):
                then = [{"link": rnd.randint(1, nl), "val": rnd.choice([0, 1])}]
                if rnd.random() < 0.3 and nl > 1:
                    then.append({"link": rnd.randint(1, nl), "val": rnd.choice([0, 1])})
                els = [{"link": then[0]["link"], "val": 1 - then[0]["val"]}] if rnd.random() < 0.3 else []
                rules.append({"cond": _cond(rnd, H, steps), "then": then, "else": els, "prio": rnd.choice([1, 3, 5])})
        rnd.shuffle(ctl)
        env = [{"fin": [rnd.choice([2, 4]) for _ in range(nl)], "dout": rnd.choice([0, 2, 4, 6])} for _ in range(steps + 1)]
        out.append({"id": k + 1, "H": H, "Rs": rnd.choice([600, 900, 1000, 3600]), "steps": steps, "ctl": ctl, "rules": rules,
                    "init": rnd.choice([98000, 100000, 104000]), "st0": [rnd.choice([0, 1]) for _ in range(nl)], "env": env,
                    "shape": shape})
    return out


def expected(scns, ck, cfg_invariants=INVARIANTS, emit=True):
    parts = common.chunks(scns, common.NCPU)
    cfg = "SPECIFICATION Spec\n" + "".join("INVARIANT %s\n" % i for i in cfg_invariants) + "INVARIANT Emit\nCHECK_DEADLOCK FALSE\n"

    def one(part):
        wd = common.subdir("runsim_%d" % part[0]["id"])
        p = os.path.join(wd, "scn.json")
        with open(p, "w") as f:
            json.dump([{k: v for k, v in s.items() if k != "shape"} for s in part], f)
        return common.run_tlc("RunSim", cfg, workers=1, env={"SCN": p, "EMIT": "1" if emit else "0"}, workdir=wd)
    exp, bad = {}, []
    with cf.ThreadPoolExecutor(max_workers=common.NCPU) as ex:
        for r in ex.map(one, parts):
            ck.add_tlc(r)
            if r.violation:
                bad.append(r.out[-2500:])
            for tag, obj in r.prints:
                if tag == "ROWS":
                    exp[obj["id"]] = obj["rows"]
    return exp, bad


def build(w, s):
    C = w.network.controls
    LS = w.network.LinkStatus
    nl = len(s["st0"])
    wn = w.network.WaterNetworkModel()
    wn.add_pattern("pout", [float(e["dout"]) for e in s["env"]])
    # every fifth scenario: the tank is created wider and gets its diameter through the attribute after every control exists
    late_diam = s.get("id", 0) % 5 == 2
    wn.add_tank("T", elevation=0.0, init_level=s["init"] * LU, min_level=0.0, max_level=30.0, diameter=DIAM * (1.5 if late_diam else 1.0))
    wn.add_junction("JD", base_demand=FU, demand_pattern="pout", elevation=0.0)
    wn.add_pipe("PD", "T", "JD", length=10.0, diameter=0.6, roughness=130)
    for k in range(1, nl + 1):
        wn.add_pattern("pin%d" % k, [float(e["fin"][k - 1]) for e in s["env"]])
        wn.add_junction("JS%d" % k, base_demand=-FU, demand_pattern="pin%d" % k, elevation=0.0)
        wn.add_pipe("L%d" % k, "JS%d" % k, "T", length=10.0, diameter=0.6, roughness=130,
                    initial_status="OPEN" if s["st0"][k - 1] else "CLOSED")
    t = wn.options.time
    t.hydraulic_timestep = t.pattern_timestep = s["H"]
    t.rule_timestep = s["Rs"]
    t.report_timestep = "ALL"
    t.duration = s["steps"] * s["H"]
    tank = wn.get_node("T")

    def act(a):
        return C.ControlAction(wn.get_link("L%d" % a["link"]), "status", LS.Open if a["val"] else LS.Closed)

    def cond(c):
        if c["op"] == "atom":
            if c["t"] == "time":
                return C.SimTimeCondition(wn, c["rel"], c["thr"])
            return C.ValueCondition(tank, "level", c["rel"], c["thr"] * LU)
        return (C.AndCondition if c["op"] == "and" else C.OrCondition)(cond(c["a"]), cond(c["b"]))
    for i, c in enumerate(s["ctl"]):
        cnd = C.SimTimeCondition(wn, "=", c["thr"]) if c["kind"] == "time" else C.ValueCondition(tank, "level", c["rel"], c["thr"] * LU)
        wn.add_control("c%02d" % i, C.Control(cnd, act(c), priority=c["prio"]))
    for i, r in enumerate(s["rules"]):
        wn.add_control("r%02d" % i, C.Rule(cond(r["cond"]), [act(a) for a in r["then"]], [act(a) for a in r["else"]], priority=r["prio"]))
    if late_diam:
        tank.diameter = DIAM
    return wn


def observe(s):
    import simnet
    w = common.import_wntr()
    try:
        wn = build(w, s)
        res, _ = simnet.run_wntr(w, wn)
        if res.error_code is not None:
            return {"id": s["id"], "err": True}
        nl = len(s["st0"])
        return {"id": s["id"], "rows": [{"t": int(tt), "level": float(res.node["pressure"]["T"].iloc[i]) / LU,
                                          "st": [int(res.link["status"]["L%d" % k].iloc[i] != 0) for k in range(1, nl + 1)]}
                                         for i, tt in enumerate(res.node["pressure"].index)]}
    except Exception as e:
        return {"id": s["id"], "exc": "%s: %s" % (type(e).__name__, str(e)[:160])}


def shape_of(s):
    def cs(c):
        if c["op"] == "atom":
            return "%s%s%d" % (c["t"][0], c["rel"], c["thr"])
        return "(%s %s %s)" % (cs(c["a"]), c["op"], cs(c["b"]))
    return "Rs=%d st0=%s ctl=[%s] rules=[%s]" % (
        s["Rs"], s["st0"],
        " ".join("%s%s%d->L%d:%d@%d" % (c["kind"][0], c["rel"], c["thr"], c["link"], c["val"], c["prio"]) for c in s["ctl"]),
        " ".join("%s->%s/%s@%d" % (cs(r["cond"]), r["then"], r["else"], r["prio"]) for r in s["rules"]))


def family(ck, pid, scns):
    """M + R over the given scenarios; reports <pid>.runsim_* violations; returns number of compared runs"""
    exp, bad = expected(scns, ck)
    for b in bad:
        ck.violation(pid + ".runsim_model", "RunSim.tla invariant violated", {"tlc": b})
    with cf.ProcessPoolExecutor(max_workers=common.NCPU) as ex:
        obs = list(ex.map(observe, scns, chunksize=8))
    n = 0
    for s, o in zip(scns, obs):
        e = exp.get(s["id"])
        if e is None:
            continue
        if any(r["level"] < 20000 or r["level"] > 560000 for r in e):
            ck.count("runsim_out_of_scope_tank_limit")       # the tank's own min / max rules take over (not modelled here)
            continue
        if "exc" in o or o.get("err"):
            ck.violation(pid + ".runsim_run", s["shape"] + " :: " + o.get("exc", "not converged"), {"runsim": s})
            continue
        n += 1
        ck.count("runsim_runs")
        ck.count("runsim_runs_" + s["shape"])
        if any(r["t"] % s["H"] for r in e):
            ck.count("runsim_runs_with_partial_step")
        got = [(r["t"], r["st"]) for r in o["rows"]]
        want = [(r["t"], list(r["st"])) for r in e]
        if got != want:
            k = next((i for i, (a, b) in enumerate(zip(got, want)) if a != b), min(len(got), len(want)))
            ck.violation(pid + ".runsim_timeline", "%s :: first difference at row %d: real %s model %s" % (
                s["shape"], k, got[k:k + 2], want[k:k + 2]), {"runsim": s, "expected": e, "observed": o["rows"]})
        elif any(abs(a["level"] - b["level"]) > 0.05 for a, b in zip(o["rows"], e)):
            ck.violation(pid + ".runsim_levels", s["shape"] + " :: levels differ from the Euler integration of the model",
                         {"runsim": s, "expected": e, "observed": o["rows"]})
        ck.nontrivial(["runsim", s["ctl"], s["rules"], s["env"], s["init"], s["st0"], s["Rs"]])
    return n


def free_environment(ck, pid, rnd, n, steps):
    """M only: TLC itself chooses the flows of every hydraulic interval (6 or 12 choices per interval), i.e. it explores EVERY
    evolution of the tank level under the scenario's controls and rules, and checks the invariants in every state."""
    scns = scenarios(rnd, n)
    for s in scns:
        s["env"] = []
        s["steps"] = steps if len(s["st0"]) == 1 else steps - 1       # two supply links: 12 choices per interval instead of 6
    exp, bad = expected(scns, ck, emit=False)
    for b in bad:
        ck.violation(pid + ".runsim_model", "RunSim.tla invariant violated under a free environment", {"tlc": b})
    ck.count("runsim_free_environment_scenarios", n)
    return n


def selftest(ck, scns):
    """binding self-test: the real network is built from a scenario whose first level threshold is moved by 4000 units while
    the model keeps the original; some run must then disagree with the model"""
    import copy
    sub = scns[:24]
    exp, _ = expected(sub, ck)
    mut = []
    for s in sub:
        m = copy.deepcopy(s)
        c = next(c for c in m["ctl"] if c["kind"] == "level")
        c["thr"] += 4000
        mut.append(m)
    with cf.ProcessPoolExecutor(max_workers=common.NCPU) as ex:
        obs = list(ex.map(observe, mut, chunksize=4))
    diff = sum(1 for s, o in zip(sub, obs) if "rows" in o and s["id"] in exp and
               [(r["t"], r["st"]) for r in o["rows"]] != [(r["t"], list(r["st"])) for r in exp[s["id"]]])
    if diff == 0:
        raise common.MachineryError("binding self-test: runs of perturbed scenarios all match the unperturbed model")
    ck.count("runsim_selftest_rejected", diff)


if __name__ == "__main__":
    import random
    import sys
    ck = common.Check("C05", "model_checking", "quick")
    rnd = random.Random(int(sys.argv[1]) if len(sys.argv) > 1 else 0)
    sc = scenarios(rnd, int(sys.argv[2]) if len(sys.argv) > 2 else 64)
    print("compared", family(ck, "C05", sc))
    for v in ck.violations[:10]:
        print(json.dumps(v)[:1500])
    print(ck.cov["counters"])

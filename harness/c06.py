"""C06 - tank volumes integrate their net inflow and stay within their limits (trace validation)."""
import random
import common
import hyd
import netgen


def tank_pump(rnd, s):
    """a pump connected directly to a tank: discharging into it (from a low reservoir or a junction) or drawing from it"""
    tank = rnd.choice([n["name"] for n in s["nodes"] if n["type"] == "T"])
    jn = [n["name"] for n in s["nodes"] if n["type"] == "J"]
    into = rnd.random() < 0.7
    if into and rnd.random() < 0.6:
        if not any(n["name"] == "RP" for n in s["nodes"]):
            s["nodes"].append({"name": "RP", "type": "R", "elev": 0.0, "head": netgen.rgrid(rnd, 5, 20, 2.5), "pat": ""})
        other = "RP"
    else:
        other = rnd.choice(jn)
    a, b = (other, tank) if into else (tank, other)
    name = "PU%d" % len(s["links"])
    if rnd.random() < 0.5:
        s["links"].append({"name": name, "type": "powerpump", "a": a, "b": b, "init": 1, "power": netgen.rgrid(rnd, 3000, 15000, 1000)})
    else:
        d = {"name": name, "type": "headpump", "a": a, "b": b, "init": 1}
        d.update(netgen.pump_family(rnd, rnd.choice([1, 3])))
        s["links"].append(d)


def main(tier, replay):
    ck = common.Check("C06", "model_checking", tier)
    rnd = random.Random(common.SEED + 606)
    props = ["C06"]
    if replay:
        scns = [common.load_replay(replay)["detail"]["scn"]]
    else:
        n = 160 if tier == "quick" else 4000
        scns = []
        for i in range(n):
            s = netgen.gen(rnd, i + 1, mode="DD" if i % 3 else "PDD", tank_bias=(i % 4 != 0),
                           features={"tanks", "pumps", "cv", "patterns", "vcurve", "parallel", "controls", "closed", "minor"})
            if not any(nd["type"] == "T" for nd in s["nodes"]):
                continue
            if i % 3 == 1:
                tank_pump(rnd, s)
            if i % 9 == 5:
                # a throttle valve whose status is OPEN (not Active) directly at a tank
                tk = rnd.choice([nd for nd in s["nodes"] if nd["type"] == "T"])
                jn = rnd.choice([nd["name"] for nd in s["nodes"] if nd["type"] == "J"])
                s["links"].append({"name": "V%d" % len(s["links"]), "type": "TCV", "a": jn, "b": tk["name"], "diam": 0.3, "minor": 0.0,
                                   "setting": netgen.rgrid(rnd, 5, 50, 5), "init": 1})
            if i % 7 == 3:
                # a leak at the bottom of a tank (it keeps draining the tank when the links are shut at the minimum level)
                tk = rnd.choice([nd for nd in s["nodes"] if nd["type"] == "T"])
                tk["leak"] = {"on": True, "area": netgen.rgrid(rnd, 0.002, 0.01, 0.002), "cd": 0.75, "start": rnd.choice([0, s["H"]]), "end": -1}
            if i % 6 == 4:
                # history: the model was simulated before with other points on the same volume curves
                pre = {nd["name"]: [[p[0], p[1] * 0.5] for p in nd["vcurve"]] for nd in s["nodes"] if nd["type"] == "T" and nd["vcurve"]}
                if pre:
                    s["prehist_vcurve"] = pre
            if i % 5 == 2:
                for nd in s["nodes"]:
                    if nd["type"] == "T":
                        nd["late_elev"] = True       # elevation assigned after the tank was created
            scns.append(s)
    good = hyd.validate(ck, "C06", scns, props)
    for s, rows in good:
        for nd in s["nodes"]:
            if nd["type"] != "T":
                continue
            n = nd["name"]
            lv = [r["press"][n] for r in rows]
            if any(abs(x - nd["minl"]) < 0.02 for x in lv):
                ck.count("tank_traces_reaching_min")
            if any(abs(x - nd["maxl"]) < 0.02 for x in lv):
                ck.count("tank_traces_reaching_max")
            if nd["vcurve"]:
                ck.count("vcurve_tank_traces")
            ck.count("tank_steps", len(rows) - 1)
        if any(r["t"] % s["H"] for r in rows):
            ck.count("traces_with_partial_step")
    if not replay:
        def mutate(s, rows):
            for nd in s["nodes"]:
                if nd["type"] == "T" and len(rows) > 2 and abs(rows[1]["dem"][nd["name"]]) > 1e-4:
                    rows[2]["press"][nd["name"]] += 0.002
                    return "level of %s +2 mm" % nd["name"]
            return None
        hyd.selftest(ck, "C06", good, props, mutate)
        c = ck.cov["counters"]
        if not (c.get("tank_traces_reaching_min") and c.get("tank_traces_reaching_max") and c.get("vcurve_tank_traces")):
            ck.vacuity("vacuity: limits / volume curves not exercised: %r" % c)
    hyd.finish_cov(ck, good, "random networks with 1-2 tanks (cylindrical or volume curve, small capacity so that both limits are "
                   "reached, several links incl. pumps and CV pipes at the tank), 10-20 hydraulic steps, report_timestep='ALL' so "
                   "that every pair of consecutive solved steps is visible; every tank x step is a clause instance")
    ck.assumptions += ["a volume curve is not asserted outside its first/last level (np.interp clamps there)",
                       "the two-second overshoot allowance refers to the largest tank flow reported so far in the run"]
    return ck.finish()

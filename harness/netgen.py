"""Seeded generator of small but feature-rich networks (scenario dicts in SI units on decimal grids).
The same scenario dict is (a) built into a real WaterNetworkModel by simnet.build and (b) read by the TLA+
trace specifications, so every constant the spec uses is exactly the constant the model was built from."""
import math
from fractions import Fraction

PEXP_GRID = [(1, 2), (3, 10), (2, 5), (11, 20), (3, 4), (1, 1)]
CURVE_EXP = [(2, 1), (3, 2), (5, 4), (9, 5), (1, 1)]


def rgrid(rnd, lo, hi, step):
    """random multiple of step in [lo, hi] as a float with a short decimal repr"""
    n = rnd.randint(int(round(lo / step)), int(round(hi / step)))
    return float(Fraction(n) * Fraction(str(step)))


def pump_family(rnd, npts):
    """head curve H = A - B q^(cp/cq) and the points that define it"""
    if npts == 1:
        Q, H = rgrid(rnd, 0.01, 0.05, 0.005), rgrid(rnd, 20, 60, 5)
        return {"A": 4 * H / 3, "B": H / (3 * Q * Q), "cp": 2, "cq": 1, "curve": [[Q, H]]}
    if npts == 2:
        Q0, Q1 = rgrid(rnd, 0.005, 0.02, 0.005), rgrid(rnd, 0.04, 0.08, 0.01)
        H0, H1 = rgrid(rnd, 40, 60, 5), rgrid(rnd, 10, 30, 5)
        B = (H0 - H1) / (Q1 - Q0)
        return {"A": H0 + B * Q0, "B": B, "cp": 1, "cq": 1, "curve": [[Q0, H0], [Q1, H1]]}
    cp, cq = rnd.choice(CURVE_EXP)
    A = rgrid(rnd, 30, 70, 5)
    Q1, Q2 = rgrid(rnd, 0.01, 0.03, 0.005), rgrid(rnd, 0.05, 0.09, 0.01)
    B = rgrid(rnd, 0.3, 0.8, 0.1) * A / (Q2 ** (cp / cq))
    pts = [[0.0, A]] + [[Q, float("%.12g" % (A - B * Q ** (cp / cq)))] for Q in (Q1, Q2)]
    # refit B so that the rounded points are (to 1e-12) on the family
    return {"A": A, "B": B, "cp": cp, "cq": cq, "curve": pts}


def gen(rnd, sid, mode=None, features=None, tank_bias=False):
    """features: set of strings that bias the generator:
    tanks, pumps, valves, leaks, controls, parallel, cv, closed, patterns, vcurve"""
    f = features if features is not None else {"tanks", "pumps", "valves", "leaks", "controls", "parallel", "cv",
                                               "closed", "patterns", "vcurve", "minor"}
    mode = mode or rnd.choice(["DD", "DD", "PDD"])
    H = rnd.choice([1800, 3600])
    Pat = rnd.choice([1800, 3600, 7200])
    s = {"id": sid, "mode": mode, "hw": rnd.choice(["default", "piecewise"]), "H": H, "Pat": Pat,
         "PatStart": rnd.choice([0, 0, Pat, 3 * Pat + 900]), "Dur": H * rnd.randint(4, 9),
         "DM": rnd.choice([1.0, 1.0, 0.5, 1.5]), "pmin": rnd.choice([0.0, 2.0, 3.5]), "preq": None,
         "pexp": list(rnd.choice(PEXP_GRID)), "all": True, "sweep": "", "patterns": {}, "nodes": [], "links": [],
         "ctl": [], "rules": []}
    s["preq"] = s["pmin"] + rnd.choice([10.0, 17.5, 25.0])
    # the rule grid matters even without rules (run_sim walks it between hydraulic steps): also steps that do not
    # divide the hydraulic step
    s["Rs"] = rnd.choice([360, 360, 420, 700, 900, 1000])
    npat = rnd.randint(1, 3) if "patterns" in f else 0
    for i in range(npat):
        s["patterns"]["PAT%d" % i] = [rnd.randint(0, 8) / 4.0 for _ in range(rnd.randint(2, 6))]
    pats = list(s["patterns"]) + [""]
    # ---- nodes
    nj = rnd.randint(3, 7)
    nres = rnd.choice([1, 1, 2])
    ntank = rnd.choice([0, 1, 1, 2]) if "tanks" in f else 0
    if tank_bias:
        ntank = rnd.choice([1, 1, 2])
        s["Dur"] = H * rnd.randint(10, 20)
    for i in range(nres):
        s["nodes"].append({"name": "R%d" % i, "type": "R", "elev": 0.0, "head": rgrid(rnd, 55, 80, 2.5), "pat": ""})
    for i in range(ntank):
        elev = rgrid(rnd, 35, 50, 2.5)
        minl, maxl = rgrid(rnd, 0, 1, 0.5), rgrid(rnd, 5, 9, 0.5)
        t = {"name": "T%d" % i, "type": "T", "elev": elev, "minl": minl, "maxl": maxl,
             "init": rgrid(rnd, minl + 0.5, maxl - 0.5, 0.25),
             "diam": rgrid(rnd, 3, 7, 1) if tank_bias else rgrid(rnd, 8, 20, 1), "vcurve": [],
             "leak": {"on": False, "area": 0.0, "cd": 0.75, "start": -1, "end": -1}}
        if "vcurve" in f and rnd.random() < 0.4:
            # monotone volume curve from level 0 to above max level (levels on a 0.5 grid, volumes integers)
            lv, vol, pts = 0.0, 0.0, [[0.0, 0.0]]
            while lv < maxl + 1:
                lv += rnd.choice([1.0, 1.5, 2.5])
                vol += rnd.choice([60.0, 120.0, 200.0]) if tank_bias else rnd.choice([100.0, 250.0, 400.0])
                pts.append([lv, vol])
            pts.append([lv + 20.0, vol + 8000.0])      # the curve extends far beyond the maximum level
            t["vcurve"] = pts
        s["nodes"].append(t)
    for i in range(nj):
        dem = []
        for _ in range(rnd.choice([0, 1, 1, 1, 2, 3])):
            dem.append({"base": rgrid(rnd, 0.0005, 0.008, 0.0005), "pat": rnd.choice(pats)})
        jn = {"name": "J%d" % i, "type": "J", "elev": rgrid(rnd, 0, 20, 2.5), "dem": dem, "has_pdd": False,
              "pmin": 0.0, "preq": 0.0, "pexp": [1, 2],
              "leak": {"on": False, "area": 0.0, "cd": 0.75, "start": -1, "end": -1}}
        if mode == "PDD" and rnd.random() < 0.35:
            jn["has_pdd"] = True
            jn["pmin"] = rnd.choice([0.0, 1.0, 5.0])
            jn["preq"] = jn["pmin"] + rnd.choice([8.0, 15.0, 30.0])
            jn["pexp"] = list(rnd.choice(PEXP_GRID))
        s["nodes"].append(jn)
    jn = ["J%d" % i for i in range(nj)]
    # ---- links: a spanning tree over junctions, sources attached, extra loops / parallel links
    links = []

    def pipe(a, b, **kw):
        d = {"name": "P%d" % len(links), "type": "pipe", "a": a, "b": b, "len": rgrid(rnd, 50, 1500, 10),
             "diam": rnd.choice([0.15, 0.2, 0.25, 0.3, 0.4, 0.5]), "rough": float(rnd.choice([80, 100, 120, 130])),
             "minor": (rnd.choice([0.0, 0.0, 2.0, 10.0]) if "minor" in f else 0.0), "cv": False, "init": 1}
        d.update(kw)
        links.append(d)
        return d
    order = jn[:]
    rnd.shuffle(order)
    for i in range(1, nj):
        a, b = order[rnd.randrange(0, i)], order[i]
        if rnd.random() < 0.5:
            a, b = b, a
        pipe(a, b)
    for i in range(nres):
        a, b = "R%d" % i, rnd.choice(jn)
        if rnd.random() < 0.3:
            a, b = b, a                      # link "reversed into" the source
        pipe(a, b, diam=rnd.choice([0.3, 0.4, 0.5]))
    for i in range(ntank):
        for _ in range(rnd.choice([1, 1, 2])):
            a, b = "T%d" % i, rnd.choice(jn)
            if rnd.random() < 0.5:
                a, b = b, a
            pipe(a, b, diam=rnd.choice([0.25, 0.3, 0.4]))
    for _ in range(rnd.randint(0, 2)):
        a, b = rnd.sample(jn, 2)
        pipe(a, b)
    if "parallel" in f and rnd.random() < 0.5:
        l0 = rnd.choice(links)
        a, b = (l0["a"], l0["b"]) if rnd.random() < 0.5 else (l0["b"], l0["a"])
        pipe(a, b)
    if "cv" in f:
        for l in links:
            if rnd.random() < 0.15:
                l["cv"] = True
    if "closed" in f and rnd.random() < 0.4:
        rnd.choice(links)["init"] = 0
    # pumps: a low reservoir feeding a junction
    if "pumps" in f and rnd.random() < 0.6:
        s["nodes"].append({"name": "RP", "type": "R", "elev": 0.0, "head": rgrid(rnd, 5, 20, 2.5), "pat": ""})
        tgt = rnd.choice(jn)
        if rnd.random() < 0.6:
            fam = pump_family(rnd, rnd.choice([1, 1, 3, 3, 2]))
            d = {"name": "PU%d" % len(links), "type": "headpump", "a": "RP", "b": tgt, "init": 1}
            d.update(fam)
            links.append(d)
        else:
            links.append({"name": "PU%d" % len(links), "type": "powerpump", "a": "RP", "b": tgt, "init": 1,
                          "power": rgrid(rnd, 2000, 20000, 1000)})
    # valves between junctions
    if "valves" in f and rnd.random() < 0.6:
        for _ in range(rnd.choice([1, 1, 2])):
            a, b = rnd.sample(jn, 2)
            vt = rnd.choice(["PRV", "PSV", "FCV", "TCV"])
            setting = {"PRV": rgrid(rnd, 10, 40, 2.5), "PSV": rgrid(rnd, 10, 40, 2.5),
                       "FCV": rgrid(rnd, 0.001, 0.01, 0.001), "TCV": rgrid(rnd, 5, 100, 5)}[vt]
            links.append({"name": "V%d" % len(links), "type": vt, "a": a, "b": b, "diam": rnd.choice([0.2, 0.3]),
                          "minor": rnd.choice([0.0, 1.0, 5.0]), "setting": setting,
                          "init": rnd.choice([2, 2, 2, 1, 0])})
    s["links"] = links
    # leaks
    if "leaks" in f and rnd.random() < 0.5:
        for nd in rnd.sample([n for n in s["nodes"] if n["type"] == "J"], rnd.choice([1, 1, 2])):
            st = rnd.choice([0, H, H + 600, 2 * H])
            nd["leak"] = {"on": True, "area": rgrid(rnd, 0.0001, 0.002, 0.0001), "cd": rnd.choice([0.75, 0.6, 1.0]),
                          "start": st, "end": rnd.choice([-1, st + H, st + 2 * H + 300])}
        # a leak on a tank, mostly starting during the run and still active when the run ends
        tanks = [n for n in s["nodes"] if n["type"] == "T"]
        if tanks and rnd.random() < 0.4:
            st = rnd.choice([H, H + 600, 2 * H, 0])
            rnd.choice(tanks)["leak"] = {"on": True, "area": rgrid(rnd, 0.0001, 0.001, 0.0001), "cd": rnd.choice([0.75, 0.6]),
                                         "start": st, "end": rnd.choice([-1, -1, st + 2 * H + 300])}
    # time controls that change the setting of a valve during the run (the law must follow the reported setting)
    s["sctl"] = []
    for l in links:
        if l["type"] in ("PRV", "PSV", "FCV", "TCV") and rnd.random() < 0.5:
            s["sctl"].append({"thr": H * rnd.randint(1, 3), "link": l["name"],
                              "val": l["setting"] * rnd.choice([0.5, 2.0]) if l["type"] != "TCV" else l["setting"] * rnd.choice([0.2, 8.0])})
    # time controls on pipes (status) - may isolate parts of the network
    if "controls" in f and rnd.random() < 0.6:
        plinks = [i + 1 for i, l in enumerate(links) if l["type"] == "pipe"]
        for _ in range(rnd.choice([1, 2, 3])):
            # priorities below and above that of the simulator's own tank-limit rules (medium): their order in time must win
            s["ctl"].append({"kind": "sim", "thr": rnd.choice([0, H, H + 900, 2 * H, 3 * H, 3 * H + 1200]), "rep": 0,
                             "link": rnd.choice(plinks), "val": rnd.choice([0, 0, 1]), "prio": rnd.choice([3, 3, 1, 5])})
    # conditional simple controls: hysteresis pairs on tank levels, junction pressure controls
    s["cctl"] = []
    if "level_controls" in f:
        tanks = [n for n in s["nodes"] if n["type"] == "T"]
        ctl_links = [l for l in links if l["type"] in ("pipe", "headpump", "powerpump") and not l.get("cv")]
        for t in tanks:
            if not ctl_links or rnd.random() < 0.15:
                continue
            l = rnd.choice(ctl_links)
            lo = rgrid(rnd, t["minl"] + 0.5, (t["minl"] + t["maxl"]) / 2, 0.25)
            hi = rgrid(rnd, (t["minl"] + t["maxl"]) / 2 + 0.25, t["maxl"] - 0.5, 0.25)
            pr = rnd.choice([3, 3, 2])
            # fill: open the link when the level is low, close it when high (or the other way round for a drain)
            a, b = (1, 0) if rnd.random() < 0.7 else (0, 1)
            s["cctl"].append({"node": t["name"], "attr": "level", "rel": "<", "thr": lo, "link": l["name"], "what": "status", "val": a, "prio": pr})
            s["cctl"].append({"node": t["name"], "attr": "level", "rel": ">", "thr": hi, "link": l["name"], "what": "status", "val": b, "prio": pr})
            if rnd.random() < 0.3:      # a second threshold crossed in the same step as the first
                s["cctl"].append({"node": t["name"], "attr": "level", "rel": ">", "thr": min(hi + 0.25, t["maxl"] - 0.25),
                                  "link": rnd.choice(ctl_links)["name"], "what": "status", "val": rnd.choice([0, 1]), "prio": rnd.choice([1, 3, 5])})
        if rnd.random() < 0.5 and ctl_links:
            j = rnd.choice([n for n in s["nodes"] if n["type"] == "J"])
            s["cctl"].append({"node": j["name"], "attr": "pressure", "rel": rnd.choice(["<", ">"]), "thr": rgrid(rnd, 10, 60, 2.5),
                              "link": rnd.choice(ctl_links)["name"], "what": "status", "val": rnd.choice([0, 1]), "prio": rnd.choice([1, 3, 5])})
        valves = [l for l in links if l["type"] in ("PRV", "PSV", "FCV", "TCV")]
        if valves and tanks and rnd.random() < 0.5:
            v = rnd.choice(valves)
            s["cctl"].append({"node": tanks[0]["name"], "attr": "level", "rel": ">", "thr": rgrid(rnd, tanks[0]["minl"] + 1, tanks[0]["maxl"] - 1, 0.25),
                              "link": v["name"], "what": "setting", "val": v["setting"] * 0.5, "prio": rnd.choice([3, 1, 5])})
            if rnd.random() < 0.5:
                # ... and a control that CLOSES the same valve, with its own priority: whichever has the higher priority wins
                s["cctl"].append({"node": tanks[0]["name"], "attr": "level", "rel": ">", "thr": rgrid(rnd, tanks[0]["minl"] + 1, tanks[0]["maxl"] - 1, 0.25),
                                  "link": v["name"], "what": "status", "val": 0, "prio": rnd.choice([2, 3, 4])})
    return s


def features_of(s):
    """feature signature of a scenario (for coverage counters / distinctness)"""
    f = set([s["mode"], s["hw"]])
    for n in s["nodes"]:
        if n["type"] == "T":
            f.add("tank-vcurve" if n["vcurve"] else "tank")
        if n["type"] == "J":
            if len(n["dem"]) > 1:
                f.add("multi-demand")
            if n.get("has_pdd"):
                f.add("junction-pdd-override")
        if n.get("leak", {}).get("on"):
            f.add("leak")
    seen = {}
    for l in s["links"]:
        f.add(l["type"] if l["type"] != "headpump" else "headpump-%dpt" % len(l["curve"]))
        if l.get("cv"):
            f.add("cv")
        if l.get("minor"):
            f.add("minor-loss")
        if l["init"] == 0:
            f.add("initially-closed")
        key = frozenset((l["a"], l["b"]))
        if key in seen:
            f.add("parallel")
        seen[key] = 1
        if any(n["name"] == l["b"] and n["type"] != "J" for n in s["nodes"]):
            f.add("link-into-source")
    if s["ctl"]:
        f.add("time-controls")
    for c in s.get("cctl", []):
        f.add("ctl-%s-%s" % (c["attr"], c["what"]))
    if s["PatStart"]:
        f.add("pattern-start")
    if s["DM"] != 1.0:
        f.add("demand-multiplier")
    return f

"""C15 - the compiled model evaluator returns true residuals and Jacobian.
T: random histories on a real aml.Model (extension rebuilt from source): build a square system from random expression
   trees (reflected operators, constant folding cases, nested powers, shared sub-expressions, if/else, conditional
   constraints, boundary values of inequalities), evaluate, replace constraints, change values, re-evaluate ...
   Every evaluation event is validated by TLC (Aml.tla): residual = Eval, Jacobian = symbolic derivative D in exact
   rational arithmetic, indices bijective, live variables = referenced variables.
M: AmlReg.tla - reference counting of leaves across register/remove histories."""
import concurrent.futures as cf
import math
import random
import common
from common import num

FN = {"exp": (math.exp, lambda a: math.exp(a)), "log": (math.log, lambda a: 1.0 / a),
      "sin": (math.sin, math.cos), "cos": (math.cos, lambda a: -math.sin(a)),
      "tan": (math.tan, lambda a: 1.0 / math.cos(a) ** 2), "asin": (math.asin, lambda a: 1.0 / math.sqrt(1 - a * a)),
      "acos": (math.acos, lambda a: -1.0 / math.sqrt(1 - a * a)), "atan": (math.atan, lambda a: 1.0 / (1 + a * a))}
VARS = ["x", "y", "z"]
PARS = ["p", "q"]


class Reject(Exception):
    pass


def pyeval(e, env, tab=None):
    """float evaluation of a JSON tree (domain checks; fills the function table)"""
    op = e["op"]
    if op == "var":
        return env["var"][e["name"]]
    if op == "param":
        return env["par"][e["name"]]
    if op == "const":
        return e["f"]
    if op in ("add", "sub", "mul", "div"):
        a, b = pyeval(e["a"], env, tab), pyeval(e["b"], env, tab)
        if op == "div":
            if abs(b) < 0.05:
                raise Reject()
            r = a / b
        else:
            r = a + b if op == "add" else a - b if op == "sub" else a * b
    elif op == "neg":
        r = -pyeval(e["a"], env, tab)
    elif op == "abs":
        r = abs(pyeval(e["a"], env, tab))
    elif op == "sign":
        a = pyeval(e["a"], env, tab)
        if 0 < abs(a) < 1e-6:
            raise Reject()
        r = 1.0 if a >= 0 else -1.0
    elif op == "pow":
        a, b = pyeval(e["a"], env, tab), pyeval(e["b"], env, tab)
        intc = e["b"]["op"] == "const" and e["b"]["isint"] and -3 <= e["b"]["i"] <= 4
        if intc:
            if e["b"]["i"] < 0 and abs(a) < 0.05:
                raise Reject()
            r = a ** e["b"]["i"]
        else:
            if a < 0.05 or a > 50 or abs(b) > 6:
                raise Reject()
            r = a ** b
            if tab is not None:
                tab[str(e["id"])] = {"arg": a, "argb": b, "v": r, "da": b * a ** (b - 1), "db": r * math.log(a)}
    elif op == "fn":
        a = pyeval(e["a"], env, tab)
        f = e["f"]
        if f == "log" and a < 0.05 or f in ("asin", "acos") and abs(a) > 0.95 or f == "tan" and abs(math.cos(a)) < 0.1 \
           or f == "exp" and abs(a) > 20:
            raise Reject()
        r = FN[f][0](a)
        if tab is not None:
            tab[str(e["id"])] = {"arg": a, "argb": 0.0, "v": r, "da": FN[f][1](a), "db": 0.0}
    elif op == "ifelse":
        c = holds(e["c"], env, tab)
        a, b = pyeval(e["a"], env, tab), pyeval(e["b"], env, tab)      # both branches must be in the domain
        r = a if c else b
    elif op == "cond":
        vals = [(holds(cs["c"], env, tab), pyeval(cs["e"], env, tab)) for cs in e["cases"]]
        fin = pyeval(e["final"], env, tab)
        r = next((v for h, v in vals if h), fin)
    else:
        raise KeyError(op)
    if r != r or abs(r) > 1e8:
        raise Reject()
    return r


def holds(c, env, tab):
    b = pyeval(c["a"], env, tab)
    for k in ("lb", "ub"):
        if c["has" + k] and 0 < abs(b - c[k + "f"]) < 1e-6:
            raise Reject()          # too close to (but not on) a branch boundary: float vs exact could differ
    return (not c["haslb"] or c["lbf"] <= b) and (not c["hasub"] or b <= c["ubf"])


class Gen:
    """builds the JSON tree and the real aml expression side by side"""

    def __init__(self, rnd, aml, leaves, vars_):
        self.rnd, self.aml, self.leaves, self.vars = rnd, aml, leaves, vars_
        self.nid = 0
        self.pool = []

    def const(self):
        r = self.rnd
        if r.random() < 0.6:
            i = r.choice([0, 1, 2, 3, -1, -2, 4, 5])
            return {"op": "const", "f": float(i), "v": float(i), "isint": True, "i": i}, i
        f = r.choice([0.5, 1.5, 2.25, -0.75, 0.1, 1.852, 3.2])
        return {"op": "const", "f": f, "v": f, "isint": False, "i": 0}, f

    def leaf(self):
        r = self.rnd
        k = r.random()
        if k < 0.6:
            n = r.choice(self.vars)
            return {"op": "var", "name": n}, self.leaves[n]
        if k < 0.8:
            n = r.choice(PARS)
            return {"op": "param", "name": n}, self.leaves[n]
        return self.const()

    def expr(self, d):
        j, e = self._expr(d)
        if not isinstance(e, (int, float)) and j["op"] not in ("var", "param", "const"):
            self.pool.append((j, e))
        return j, e

    def _expr(self, d):
        r = self.rnd
        if self.pool and r.random() < 0.12:
            return r.choice(self.pool)          # the SAME sub-expression object used again (also within one expression)
        if d == 0 or r.random() < 0.15:
            return self.leaf()
        k = r.random()
        if k < 0.5:
            op = r.choice(["add", "sub", "mul", "div", "mul", "add"])
            (ja, a), (jb, b) = self.expr(d - 1), self.expr(d - 1)
            if isinstance(a, (int, float)) and isinstance(b, (int, float)):
                (ja, a) = self.leaf() if False else ({"op": "var", "name": self.vars[0]}, self.leaves[self.vars[0]])
            e = a + b if op == "add" else a - b if op == "sub" else a * b if op == "mul" else a / b
            return {"op": op, "a": ja, "b": jb}, e
        if k < 0.62:
            (ja, a) = self.expr(d - 1)
            if r.random() < 0.7:
                jb, b = self.const()
            else:
                (jb, b) = self.expr(d - 1)
            if isinstance(a, (int, float)) and isinstance(b, (int, float)):
                ja, a = {"op": "var", "name": self.vars[0]}, self.leaves[self.vars[0]]
            self.nid += 1
            return {"op": "pow", "a": ja, "b": jb, "id": str(self.nid)}, a ** b
        (ja, a) = self.expr(d - 1)
        if isinstance(a, (int, float)):
            ja, a = {"op": "var", "name": self.vars[-1]}, self.leaves[self.vars[-1]]
        if k < 0.7:
            return {"op": "neg", "a": ja}, -a
        if k < 0.76:
            return {"op": "abs", "a": ja}, self.aml.abs(a)
        if k < 0.8:
            return {"op": "sign", "a": ja}, self.aml.sign(a)
        if k < 0.92:
            f = r.choice(list(FN))
            self.nid += 1
            return {"op": "fn", "f": f, "a": ja, "id": str(self.nid)}, getattr(self.aml, f)(a)
        jc, c = self.ineq(d - 1)
        (jt, t), (je, el) = self.expr(d - 1), self.expr(d - 1)
        from wntr.sim.aml.expr import if_else
        return {"op": "ifelse", "c": jc, "a": jt, "b": je}, if_else(c, t, el)

    def ineq(self, d):
        r = self.rnd
        (jb, b) = self.expr(d)
        if isinstance(b, (int, float)):
            jb, b = {"op": "var", "name": self.vars[0]}, self.leaves[self.vars[0]]
        lb = r.choice([None, -1.0, 0.0, 0.5])
        ub = r.choice([None, 0.0, 1.0, 2.5]) if lb is None or r.random() < 0.5 else None
        if lb is None and ub is None:
            ub = 1.0
        if lb is not None and ub is not None and ub < lb:
            lb, ub = ub, lb
        j = {"op": "ineq", "a": jb, "haslb": lb is not None, "hasub": ub is not None, "lb": lb if lb is not None else 0.0,
             "ub": ub if ub is not None else 0.0, "lbf": lb if lb is not None else 0.0, "ubf": ub if ub is not None else 0.0}
        return j, self.aml.inequality(b, lb=lb, ub=ub)

    def constraint(self, d):
        r = self.rnd
        if r.random() < 0.2:
            cases, ce = [], self.aml.ConditionalExpression()
            for _ in range(r.choice([1, 2])):
                jc, c = self.ineq(1)
                je, e = self.expr(d - 1)
                if isinstance(e, (int, float)):
                    je, e = {"op": "var", "name": self.vars[0]}, self.leaves[self.vars[0]]
                ce.add_condition(c, e)
                cases.append({"c": jc, "e": je})
            jf, f = self.expr(d - 1)
            if isinstance(f, (int, float)):
                jf, f = {"op": "var", "name": self.vars[0]}, self.leaves[self.vars[0]]
            ce.add_final_expr(f)
            return {"op": "cond", "cases": cases, "final": jf}, ce
        j, e = self.expr(d)
        if isinstance(e, (int, float)) or j["op"] in ("const", "param"):
            j2, e2 = {"op": "var", "name": self.vars[0]}, self.leaves[self.vars[0]]
            j, e = {"op": "add", "a": j2, "b": j}, e2 + e
        return j, e


def vars_of(e):
    op = e["op"]
    if op == "var":
        return {e["name"]}
    if op in ("param", "const"):
        return set()
    if op == "cond":
        s = vars_of(e["final"])
        for c in e["cases"]:
            s |= vars_of(c["c"]["a"]) | vars_of(c["e"])
        return s
    s = set()
    for k in ("a", "b"):
        if k in e:
            s |= vars_of(e[k])
    if "c" in e:
        s |= vars_of(e["c"]["a"])
    return s


def enc(e):
    """JSON tree -> encoding for Aml.tla (floats as Dec numbers)"""
    if isinstance(e, dict):
        out = {}
        for k, v in e.items():
            if k in ("f",) and e.get("op") == "const":
                continue
            if k in ("lbf", "ubf"):
                continue
            if k in ("v", "lb", "ub"):
                out[k] = num(v)
            elif isinstance(v, (dict, list)):
                out[k] = enc(v)
            else:
                out[k] = v
        return out
    if isinstance(e, list):
        return [enc(x) for x in e]
    return e


def one_history(seed):
    """returns (events, error) - events are the self-contained evaluation events of one history"""
    w = common.import_wntr()
    aml = w.sim.aml
    rnd = random.Random(seed)
    events = []
    for attempt in range(40):
        m = aml.Model()
        k = rnd.choice([1, 2, 2, 3])
        vs = VARS[:k]
        vals = {"var": {v: rnd.choice([0.5, 1.0, 1.5, 2.0, -1.0, 0.25, 3.0, 0.0]) for v in vs},
                "par": {p: rnd.choice([0.5, 2.0, -1.5, 1.0]) for p in PARS}}
        leaves = {}
        for v in vs:
            leaves[v] = aml.Var(vals["var"][v])
            setattr(m, v, leaves[v])
        for p in PARS:
            leaves[p] = aml.Param(vals["par"][p])
            setattr(m, p, leaves[p])
        g = Gen(rnd, aml, leaves, vs)
        cons = []
        try:
            shared = g.expr(2)                        # a sub-expression shared by several constraints
            for ci in range(k):
                j, e = g.constraint(rnd.choice([1, 2, 3, 4]))
                if rnd.random() < 0.4 and not isinstance(shared[1], (int, float)) and j["op"] != "cond":
                    j, e = {"op": "add", "a": j, "b": shared[0]}, e + shared[1]
                # make sure variable number ci is referenced so that the system is square
                if vs[ci] not in vars_of(j) and j["op"] != "cond":
                    j, e = {"op": "add", "a": j, "b": {"op": "var", "name": vs[ci]}}, e + leaves[vs[ci]]
                cons.append(["c%d" % ci, j, e])
            live = set()
            for _, j, _ in cons:
                live |= vars_of(j)
            if live != set(vs):
                continue
            pyeval_all(cons, vals)
        except Reject:
            continue
        except (ZeroDivisionError, OverflowError, ValueError):
            continue
        build = ""
        # a third of the histories keep their constraints in a ConstraintDict (as the hydraulic model does)
        m._use_dict = rnd.random() < 0.33
        try:
            if m._use_dict:
                m.cd = aml.ConstraintDict()
            for name, j, e in cons:
                set_con(m, name, aml.Constraint(e))
        except Exception as ex:
            build = "%s: %s" % (type(ex).__name__, str(ex)[:80])
        steps = rnd.randint(1, 4)
        for st in range(steps + 1):
            if build:
                events.append(event(cons, vals, None, build))
                return events
            try:
                m.set_structure()
                ev = event(cons, vals, (m, leaves), "")
            except Reject:
                break
            except Exception as ex:
                ev = event(cons, vals, None, "%s: %s" % (type(ex).__name__, str(ex)[:80]))
                events.append(ev)
                return events
            events.append(ev)
            if st == steps:
                break
            # next operation: change values, or replace a constraint (remove + add) keeping the system square
            if rnd.random() < 0.3:
                # the solver moves the evaluator's point through an x vector; the user then assigns every variable the value it
                # had before (a reset to the initial guess): the evaluator must be back at the assigned point
                try:
                    x = m.get_x()
                    m.load_var_values_from_x(x + 0.75)
                    for v in vs:
                        leaves[v].value = vals["var"][v]
                except Exception as ex:
                    build = "%s: %s" % (type(ex).__name__, str(ex)[:80])
            elif rnd.random() < 0.5:
                v = rnd.choice(vs)
                nv = rnd.choice([0.5, 1.0, 1.5, 2.0, -1.0, 0.25, 3.0, 0.0, 2.5])
                vals["var"][v] = nv
                leaves[v].value = nv
                if rnd.random() < 0.5:
                    p = rnd.choice(PARS)
                    vals["par"][p] = rnd.choice([0.5, 2.0, -1.5, 1.0, 4.0])
                    leaves[p].value = vals["par"][p]
            else:
                ci = rnd.randrange(k)
                ok = False
                for _ in range(20):
                    try:
                        j, e = g.constraint(rnd.choice([1, 2, 3]))
                        if rnd.random() < 0.5 and not isinstance(shared[1], (int, float)) and j["op"] != "cond":
                            j, e = {"op": "mul", "a": j, "b": shared[0]}, e * shared[1]
                        if vs[ci] not in vars_of(j) and j["op"] != "cond":
                            j, e = {"op": "add", "a": j, "b": {"op": "var", "name": vs[ci]}}, e + leaves[vs[ci]]
                        new = cons[:ci] + [[cons[ci][0], j, e]] + cons[ci + 1:]
                        live = set()
                        for _, jj, _ in new:
                            live |= vars_of(jj)
                        if live != set(vs):
                            continue
                        pyeval_all(new, vals)
                        ok = True
                        break
                    except (Reject, ZeroDivisionError, OverflowError, ValueError):
                        continue
                if not ok:
                    break
                try:
                    if m._use_dict and rnd.random() < 0.4:
                        # remove the whole dictionary and build it again with the new set of constraints
                        del m.cd
                        m.cd = aml.ConstraintDict()
                        for name, _, ee in new:
                            set_con(m, name, aml.Constraint(ee))
                    else:
                        del_con(m, cons[ci][0])
                        set_con(m, cons[ci][0], aml.Constraint(e))
                except Exception as ex:
                    build = "%s: %s" % (type(ex).__name__, str(ex)[:80])
                cons = new
        try:
            pyeval_all(cons, vals)
        except Exception:
            return events
        return events
    return events


def set_con(m, name, c):
    if m._use_dict:
        m.cd[name] = c
    else:
        setattr(m, name, c)


def del_con(m, name):
    if m._use_dict:
        del m.cd[name]
    else:
        delattr(m, name)


def pyeval_all(cons, vals):
    tab = {}
    for _, j, _ in cons:
        pyeval(j, vals, tab)
    return tab


def event(cons, vals, model, build):
    tab = pyeval_all(cons, vals)
    ev = {"cons": [{"name": n, "expr": enc(j)} for n, j, _ in cons],
          "var": {k: num(v) for k, v in vals["var"].items()}, "par": {k: num(v) for k, v in vals["par"].items()},
          "tab": {k: {kk: num(vv) for kk, vv in t.items()} for k, t in tab.items()} or {"0": {"arg": num(0), "argb": num(0),
                                                                                             "v": num(0), "da": num(0), "db": num(0)}},
          "obs": {"res": {}, "jac": {}, "cidx": {}, "vidx": {}, "live": [], "nx": 0, "build": build}}
    if model is None:
        return ev
    m, leaves = model
    if len(list(m.vars())) != len(cons):
        raise Reject()      # constant folding (0*x, x**0) removed a variable: the system is not square, nothing to evaluate
    r = m.evaluate_residuals()
    J = m.evaluate_jacobian().toarray()
    live = [v for v in VARS if v in leaves and leaves[v] in set(m.vars())]
    ev["obs"]["live"] = live
    ev["obs"]["nx"] = int(len(m.get_x()))
    for v in live:
        ev["obs"]["vidx"][v] = int(leaves[v].index)
    for n, j, _ in cons:
        c = m.cd[n] if m._use_dict else getattr(m, n)
        ci = int(c.index)
        ev["obs"]["cidx"][n] = ci
        val = float(r[ci])
        if val != val or abs(val) > 1e12:
            raise Reject()
        ev["obs"]["res"][n] = num(val)
        ev["obs"]["jac"][n] = {}
        for v in live:
            x = float(J[ci, int(leaves[v].index)])
            if x != x or abs(x) > 1e12:
                raise Reject()
            ev["obs"]["jac"][n][v] = num(x)
    return ev


def shape(ev):
    def s(e):
        if isinstance(e, dict):
            op = e.get("op")
            if op in ("var", "param"):
                return op[0]
            if op == "const":
                return "k"
            if op == "cond":
                return "cond(%s;%s)" % (",".join(s(c["e"]) for c in e["cases"]), s(e["final"]))
            if op == "fn":
                return "%s(%s)" % (e["f"], s(e["a"]))
            if op == "ifelse":
                return "if(%s,%s)" % (s(e["a"]), s(e["b"]))
            return "%s(%s)" % (op, ",".join(s(e[k]) for k in ("a", "b") if k in e))
        return "?"
    return " ; ".join(s(c["expr"]) for c in ev["cons"])


def main(tier, replay):
    ck = common.Check("C15", "model_checking", tier)
    # ---- M: reference counting model
    if not replay:
        r = common.run_tlc("AmlReg", "SPECIFICATION Spec\nINVARIANT RefcountIsUse\nINVARIANT LiveIffReferenced\n"
                           "CHECK_DEADLOCK FALSE\nCONSTANTS MaxCons = %d\n" % (3 if tier == "quick" else 4),
                           workers=common.NCPU, timeout=1800)
        if r.violation:
            ck.violation("C15.refcount", "AmlReg.tla invariant violated", {"tlc": r.out[-2000:]})
        ck.add_tlc(r)
    # ---- T
    if replay:
        seeds = [common.load_replay(replay)["detail"]["seed"]]
    else:
        n = 1500 if tier == "quick" else 40000
        seeds = [common.SEED * 1000003 + i for i in range(n)]
    with cf.ProcessPoolExecutor(max_workers=common.NCPU) as ex:
        outs = list(ex.map(one_history, seeds, chunksize=16))
    events, owner = [], []
    for sd, evs in zip(seeds, outs):
        for e in evs:
            events.append(e)
            owner.append(sd)
    verdicts = common.run_cases("Aml", events, check=ck)
    for gi, payload in verdicts:
        for cl in common.parse_set(payload):
            name, _, el = cl.partition("@")
            if name == "CERT.bad":
                raise common.MachineryError("function table computed at a different argument than the spec's (seed %d)" % owner[gi])
            detail = events[gi]["obs"]["build"] if name == "C15.build_ok" else shape(events[gi])[:160]
            ck.violation(name, name + " :: " + detail, {"seed": owner[gi], "element": el, "event": events[gi]})
    ops = {}
    for e in events:
        ck.nontrivial(shape(e))

        def walk(x):
            if isinstance(x, dict):
                if "op" in x:
                    k = x["op"] + (":" + x["f"] if x["op"] == "fn" else "")
                    ops[k] = ops.get(k, 0) + 1
                for v in x.values():
                    walk(v)
            elif isinstance(x, list):
                for v in x:
                    walk(v)
        walk(e["cons"])
    ck.cov["counters"]["operator_occurrences"] = ops
    ck.cov["counters"]["histories"] = len(seeds)
    ck.cov["evaluations"] = len(events)
    ck.cov["traces_validated_against_impl"] = len(seeds)
    ck.cov["rule"] = ("seeded random histories on a real aml.Model: square systems of 1-3 constraints over 3 vars / 2 params, "
                      "expression trees of depth <= 4 over + - * / ** neg abs sign exp log sin cos tan asin acos atan, if/else, "
                      "conditional constraints, Python-number operands (reflected operators, 0*e, e**0, e**1), a sub-expression "
                      "shared by several constraints; then value changes and constraint replacement (remove + add) with "
                      "re-evaluation; every evaluation event is judged by TLC; distinct by the shape of the system")
    if events:
        ck.sample({"system": shape(events[0]), "residuals": {k: float(common.unnum(v)) for k, v in events[0]["obs"]["res"].items()}})
    if not replay and events:
        import copy
        bad = copy.deepcopy(next(e for e in events if not e["obs"]["build"]))
        c0 = bad["cons"][0]["name"]
        v0 = bad["obs"]["live"][0]
        bad["obs"]["jac"][c0][v0] = num(float(common.unnum(bad["obs"]["jac"][c0][v0])) + 1e-3)
        if not common.run_cases("Aml", [bad], nproc=1):
            raise common.MachineryError("binding self-test: perturbed Jacobian entry accepted")
    ck.assumptions += ["values of exp, log, sin, cos, tan, asin, acos, atan and of non-integer powers at a point are taken from "
                       "Python's math module (libm); the spec checks they were computed at the argument it evaluates itself",
                       "points closer than 1e-6 to (but not on) a branch boundary are not generated"]
    return ck.finish()

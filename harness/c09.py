"""C09 - junctions cut off from all sources are zeroed; connected ones never are.
M: Isolation.tla - TLC explores every multigraph / status history in a small scope and checks that the incremental
   adjacency of run_sim (one entry per node pair shared by parallel links) gives the declarative isolated set.
T: small multigraphs (parallel links, several sources) with schedules of time controls opening and closing links, and
   random feature-rich networks, run through the real simulator (C++ graph search rebuilt from source); TLC computes
   reachability over the reported statuses of every row and checks zero-ness <=> unreachability."""
import random
import common
import hyd
import netgen
import c02


def multigraph_scenario(rnd, sid):
    s = c02.base(sid, rnd.choice(["default", "piecewise"]))
    s["mode"] = rnd.choice(["DD", "DD", "PDD"])
    s["patterns"] = {}
    nj = rnd.randint(2, 4)
    names = ["R0"] + ["J%d" % i for i in range(nj)]
    s["nodes"] = [{"name": "R0", "type": "R", "elev": 0.0, "head": 60.0, "pat": ""}]
    if rnd.random() < 0.4:
        s["nodes"].append({"name": "T0", "type": "T", "elev": 40.0, "minl": 0.0, "maxl": 30.0, "init": 10.0, "diam": 30.0,
                           "vcurve": [], "leak": {"on": False, "area": 0.0, "cd": 0.75, "start": -1, "end": -1}})
        names.append("T0")
    for i in range(nj):
        s["nodes"].append(c02.junction("J%d" % i, netgen.rgrid(rnd, 0, 10, 2.5),
                                       [{"base": netgen.rgrid(rnd, 0.001, 0.006, 0.001), "pat": ""}]))
    links = []
    nl = rnd.randint(nj, nj + 3)
    # make sure every junction touches at least one link; allow parallel links between the same pair
    targets = ["J%d" % i for i in range(nj)]
    rnd.shuffle(targets)
    for k in range(nl):
        if k < nj:
            b = targets[k]
            a = rnd.choice([n for n in names if n != b])
        else:
            if links and rnd.random() < 0.5:
                l0 = rnd.choice(links)
                a, b = (l0["a"], l0["b"]) if rnd.random() < 0.5 else (l0["b"], l0["a"])     # parallel link
            else:
                a, b = rnd.sample(names, 2)
        if {a, b} <= {"R0", "T0"}:
            a = "J0"
        if rnd.random() < 0.5:
            a, b = b, a          # drawn towards the source as often as away from it
        links.append({"name": "P%d" % k, "type": "pipe", "a": a, "b": b, "len": netgen.rgrid(rnd, 100, 800, 50),
                      "diam": rnd.choice([0.2, 0.3]), "rough": 100.0, "minor": 0.0, "cv": False, "init": rnd.choice([1, 1, 1, 0])})
    s["links"] = links
    if rnd.random() < 0.15:
        # a junction that no link touches, created after all the others: cut off for ever, reported as zeros
        s["nodes"].append(c02.junction("JZ", 5.0, [{"base": 0.002, "pat": ""}]))
    H = s["H"]
    steps = rnd.randint(4, 7)
    s["Dur"] = H * steps
    # some links are valves (closed, active or open at the start) that controls close, open or (re)activate: a valve that
    # becomes Active must reconnect what lies behind it just like one that is opened
    vidx = []
    if rnd.random() < 0.5:
        for k in rnd.sample(range(len(links)), rnd.choice([1, 1, 2])):
            l = links[k]
            jj = l["a"].startswith("J") and l["b"].startswith("J")
            vt = rnd.choice(["TCV", "PRV", "FCV", "PSV"]) if jj else "TCV"
            setting = {"PRV": netgen.rgrid(rnd, 10, 40, 2.5), "PSV": netgen.rgrid(rnd, 10, 40, 2.5),
                       "FCV": netgen.rgrid(rnd, 0.002, 0.02, 0.002), "TCV": netgen.rgrid(rnd, 5, 100, 5)}[vt]
            links[k] = {"name": l["name"], "type": vt, "a": l["a"], "b": l["b"], "diam": l["diam"], "minor": 0.0, "setting": setting,
                        "init": rnd.choice([0, 0, 2, 1])}
            vidx.append(k + 1)
    for _ in range(rnd.randint(1, 5)):
        k = rnd.choice(vidx) if vidx and rnd.random() < 0.5 else rnd.randint(1, len(links))
        s["ctl"].append({"kind": "sim", "thr": rnd.choice([0, H, 2 * H, 2 * H + 900, 3 * H, 4 * H + 1]), "rep": 0,
                         "link": k, "val": rnd.choice([0, 0, 1, 2, 2]) if k in vidx else rnd.choice([0, 0, 1]), "prio": 3})
    return s


def isolation_stats(s, rows):
    src = {n["name"] for n in s["nodes"] if n["type"] != "J"}
    out = []
    for r in rows:
        reach = set(src)
        ch = True
        while ch:
            ch = False
            for l in s["links"]:
                if r["status"][l["name"]] != 0 and ((l["a"] in reach) != (l["b"] in reach)):
                    reach |= {l["a"], l["b"]}
                    ch = True
        out.append({n["name"] for n in s["nodes"]} - reach)
    return out


def main(tier, replay):
    ck = common.Check("C09", "model_checking", tier)
    rnd = random.Random(common.SEED + 909)
    props = ["C09", "C01"]
    # ---- M
    if not replay:
        scope = ("{r, a, b}", 3, 3) if tier == "quick" else ("{r, a, b, c}", 5, 3)
        cfg = ("SPECIFICATION Spec\nINVARIANT IncrementalEqReach\nCHECK_DEADLOCK FALSE\nCONSTANTS\n Nodes = %s\n Srcs = {r}\n"
               " MaxLinks = %d\n MaxChanges = %d\n" % scope)
        r = common.run_tlc("Isolation", cfg, workers=common.NCPU, timeout=3000)
        if r.violation:
            ck.violation("C09.incremental_eq_reach", "Isolation.tla scope %s" % (scope,), {"tlc": r.out[-3000:]})
        ck.add_tlc(r)
        ck.cov["counters"]["isolation_model_states"] = r.distinct
    # ---- T
    if replay:
        scns = [common.load_replay(replay)["detail"]["scn"]]
    else:
        n1, n2 = (220, 60) if tier == "quick" else (6000, 1500)
        scns = [multigraph_scenario(rnd, i + 1) for i in range(n1)]
        scns += [netgen.gen(rnd, n1 + i + 1, features={"tanks", "controls", "closed", "parallel", "cv", "valves", "pumps", "patterns"})
                 for i in range(n2)]
    good = hyd.validate(ck, "C09", scns, props)
    for s, rows in good:
        iso = isolation_stats(s, rows)
        if any(iso):
            ck.count("traces_with_isolation")
        ck.count("rows_with_isolated_junction", sum(1 for x in iso if x))
        for a, b in zip(iso, iso[1:]):
            if a - b:
                ck.count("reconnections")
        pairs = {}
        for l in s["links"]:
            pairs.setdefault(frozenset((l["a"], l["b"])), []).append(l["name"])
        if any(len(v) > 1 and any(len({r["status"][x] for x in v}) > 1 for r in rows) for v in pairs.values()):
            ck.count("traces_with_mixed_status_parallel_links")
    if not replay:
        def mutate(s, rows):
            iso = isolation_stats(s, rows)
            for r, x in zip(rows, iso):
                for n in sorted(x):
                    r["press"][n] = 0.25
                    return "pressure of isolated %s set to 0.25" % n
            return None
        hyd.selftest(ck, "C09", good, props, mutate)
        c = ck.cov["counters"]
        for k in ("traces_with_isolation", "reconnections", "traces_with_mixed_status_parallel_links"):
            if not c.get(k):
                ck.vacuity("vacuity: %s = 0" % k)
    hyd.finish_cov(ck, good, "multigraphs with 2-4 junctions, reservoir (+ tank), up to 7 links incl. parallel links between one node "
                   "pair, random initial closures and 1-5 time controls opening/closing links on and off the grid; plus random "
                   "networks with CV pipes, valves, pumps; every junction x reported row is a clause instance (zeroed <=> "
                   "unreachable over links whose reported status is not Closed)")
    ck.assumptions += ["reachability is evaluated on the reported statuses of each row"]
    return ck.finish()

"""Shared runner of the trace-validation checks on general networks (C01 C02 C06 C07 C08 C09):
scenario dicts (netgen) -> real WNTRSimulator run -> recorded rows + witnesses -> TLC (ObsTrace.tla over
Hydraulics.tla) -> verdicts per clause and element."""
import concurrent.futures as cf
import copy
import json
import common
import netgen
import simnet

Htol = 0.0001524
Qtol = 2.83168e-6


def simulate(s):
    """run the real simulator on a scenario; returns {'rows':..} | {'err':..} | {'exc':..}"""
    w = common.import_wntr()
    try:
        pre = s.get("prehist_vcurve")          # history: a first run with other volume-curve points, then edit, reset, rerun
        if pre:
            s0 = copy.deepcopy(s)
            for n in s0["nodes"]:
                if n["name"] in pre:
                    n["vcurve"] = pre[n["name"]]
            wn = simnet.build(w, s0)
            simnet.run_wntr(w, wn, HW_approx=s["hw"])
            for n in s["nodes"]:
                if n["name"] in pre:
                    wn.get_curve(n["name"] + "_vol").points = [tuple(p) for p in n["vcurve"]]
            wn.reset_initial_values()
        else:
            wn = simnet.build(w, s)
        res, warns = simnet.run_wntr(w, wn, HW_approx=s["hw"])
    except Exception as e:
        return {"exc": "%s: %s" % (type(e).__name__, str(e)[:160])}
    if res.error_code is not None:
        return {"err": (warns or ["error_code set"])[0][:160]}
    try:
        simnet.scenario_certs(s)
        return {"rows": simnet.rows_of(s, res), "scn": s}
    except Exception as e:
        return {"exc": "record: %s: %s" % (type(e).__name__, str(e)[:160])}


def diagnose(s, rows, l, clause, el):
    """stable, data-derived description of a violated clause (used as known-finding signature)"""
    r = rows[l - 1]
    lk = next((x for x in s["links"] if x["name"] == el), None)
    nd = next((x for x in s["nodes"] if x["name"] == el), None)
    if lk is not None:
        q = r["flow"][el]
        gain = r["head"][lk["b"]] - r["head"][lk["a"]]
        d = "%s status=%d" % (lk["type"] + (("-%dpt" % len(lk["curve"])) if lk["type"] == "headpump" else ""),
                              r["status"][el])
        if lk["type"] == "powerpump":
            d += " q<0,gain<0 (turbine branch of P=rho*g*q*dH)" if q < -Qtol and gain < 0 else \
                 (" q<0" if q < -Qtol else " q>=0")
        elif lk["type"] == "headpump":
            if q < -Qtol:
                d += " q<0 with gain within Htol of shutoff head A" if abs(gain - lk["A"]) <= Htol else " q<0"
            else:
                d += " q>=0"
        elif lk["type"] == "pipe":
            d += " cv" if lk["cv"] else ""
            d += " |q|<4e-4" if abs(q) < 4e-4 else ""
        return d
    if clause in ("C07.pdd_monotone", "C07.pdd_continuous") and s.get("sweep"):
        j = next(x for x in s["nodes"] if x["name"] == s["sweep"])
        pe = j["pexp"] if j["has_pdd"] else s["pexp"]
        return "sweep exponent=%d/%d %s" % (pe[0], pe[1], "per-junction" if j["has_pdd"] else "global")
    if nd is not None:
        d = {"J": "junction", "T": "tank", "R": "reservoir"}[nd["type"]]
        if nd["type"] == "T":
            d += "-vcurve" if nd["vcurve"] else ""
            if nd["vcurve"] and clause in ("C06.tank_limits", "C05.no_overshoot") and l > 1:
                # would the trial full hydraulic step from the previous solved row have left the curve's domain?
                import numpy as np
                lv = [p[0] for p in nd["vcurve"]]
                vo = [p[1] for p in nd["vcurve"]]
                for pr in rows[:l - 1]:
                    v0 = float(np.interp(pr["press"][el], lv, vo))
                    t_next = (pr["t"] // s["H"] + 1) * s["H"]
                    v1 = v0 + pr["dem"][el] * (t_next - pr["t"])
                    if v1 < vo[0] or v1 > vo[-1]:
                        d += " (a trial hydraulic step leaves the volume curve's domain: clamped interpolation)"
                        break
        if nd.get("leak", {}).get("on"):
            d += " leak"
        if nd["type"] == "T" and clause.startswith("C06.") and any(
                x["type"] in ("PRV", "PSV", "FCV", "TCV") and el in (x["a"], x["b"]) and r["status"][x["name"]] == 1 for x in s["links"]):
            d += " (a valve with status Open is attached: the tank's limit rules act on the internal status, which an Open valve ignores)"
        if nd["type"] == "T" and clause.startswith("C06."):
            # a pump attached to the tank that reports reverse flow (the open C02 finding) moves water the tank rules do not expect
            for x in s["links"]:
                if x["type"] in ("headpump", "powerpump") and el in (x["a"], x["b"]) and \
                   any(pr["flow"][x["name"]] < -Qtol for pr in rows[:l]):
                    d += " (attached %s reports reverse flow: C02 pump-reverse finding)" % x["type"]
                    break
        return d
    return ""


def validate(ck, pid, scns, props, nproc=None, extra_ok=()):
    """simulate + validate a list of scenarios; registers violations whose clause starts with pid.
    returns (number of traces validated, list of (scenario, rows))"""
    nproc = nproc or common.NCPU
    with cf.ProcessPoolExecutor(max_workers=nproc) as ex:
        outs = list(ex.map(simulate, scns, chunksize=4))
    good = []
    for s, o in zip(scns, outs):
        if "rows" in o:
            good.append((o["scn"], o["rows"]))
        elif "err" in o:
            ck.count("not_converged")
            if s.get("must_solve"):
                # a tiny well-posed network (reservoir - junction - junction) whose every step has a solution: a failure to
                # converge there says that the model of the law is broken, not that the network is hard
                ck.violation(pid + ".unsolved", "%s :: %s" % (s["must_solve"], o["err"][:80]), {"scn": s})
        else:
            # an exception out of run_sim means "this step could not be solved" (C16 decides whether it was signalled
            # properly); it is not a statement about the reported rows, so the other properties only count it -
            # except errors that are plainly not solver failures (KeyError, AttributeError, TypeError ...)
            ck.count("raised")
            if o["exc"].startswith("RunHangs"):
                ck.violation(pid + ".run_hangs", "run_sim did not terminate within the wall-clock limit", {"scn": s})
            elif not o["exc"].startswith(("RuntimeError", "record:")) and not o["exc"].startswith("ValueError"):
                ck.violation(pid + ".run_failed", "%s :: %s" % (" ".join(sorted(netgen.features_of(s))), o["exc"]),
                             {"scn": s, "exc": o["exc"]})
            elif o["exc"].startswith("record:"):
                raise common.MachineryError("recording failed: " + o["exc"])
    traces = [simnet.encode_trace(s, rows, props) for s, rows in good]
    verdicts = common.run_cases("ObsTrace", traces, check=ck, nproc=nproc)
    handle(ck, pid, good, verdicts)
    for s, rows in good:
        ck.count("rows", len(rows))
    ck.cov["traces_validated_against_impl"] += len(good)
    return good


def handle(ck, pid, good, verdicts, expect=None):
    hits = []
    for gi, payload in verdicts:
        l = int(payload.split(",")[0])
        s, rows = good[gi]
        for cl in common.parse_set(payload):
            name, _, el = cl.partition("@")
            if name == "CERT.bad":
                raise common.MachineryError("a power-certificate witness was rejected by the spec (scenario %s row %d)"
                                            % (s["id"], l))
            hits.append((gi, l, name, el))
            if expect is not None:
                continue
            if not name.startswith(pid + "."):
                ck.count("other_property_clause:" + name)
                continue
            d = diagnose(s, rows, l, name, el)
            ck.violation(name, "%s :: %s" % (name, d), {"scn": s, "row": l, "element": el, "t": rows[l - 1]["t"]})
    return hits


def selftest(ck, pid, good, props, mutate, attempts=6):
    """binding self-test: corrupt one recorded field of a good trace; the spec must reject it.  A corruption may land on an
    instance the clauses deliberately do not judge (isolated node, tank off its curve, ...), so up to `attempts` corrupted
    traces are tried and one rejection is required."""
    tried = []
    for s, rows in good:
        rows2 = copy.deepcopy(rows)
        what = mutate(s, rows2)
        if what is None:
            continue
        v = common.run_cases("ObsTrace", [simnet.encode_trace(s, rows2, props)], nproc=1)
        hits = handle(ck, pid, [(s, rows2)], v, expect=True)
        if any(name.startswith(pid + ".") for _, _, name, _ in hits):
            ck.count("selftest_rejected")
            return
        tried.append(what)
        if len(tried) >= attempts:
            break
    if tried:
        raise common.MachineryError("binding self-test: corrupted traces accepted (%s)" % "; ".join(tried))
    raise common.MachineryError("binding self-test: no trace suitable for corruption")


def finish_cov(ck, good, rule):
    feats = {}
    for s, rows in good:
        f = netgen.features_of(s)
        ck.nontrivial(" ".join(sorted(f)) + " n=%d l=%d" % (len(s["nodes"]), len(s["links"])))
        for x in f:
            feats[x] = feats.get(x, 0) + 1
    ck.cov["counters"]["features"] = feats
    ck.cov["evaluations"] = ck.cov["counters"].get("rows", 0)
    ck.cov["rule"] = rule
    if good:
        s, rows = good[0]
        ck.sample({"scenario": {k: s[k] for k in ("id", "mode", "hw", "H", "Pat", "PatStart", "Dur", "DM")},
                   "nodes": [n["name"] + ":" + n["type"] for n in s["nodes"]],
                   "links": ["%s:%s:%s->%s" % (l["name"], l["type"], l["a"], l["b"]) for l in s["links"]],
                   "first_row": {"t": rows[0]["t"], "flow": rows[0]["flow"], "status": rows[0]["status"]}})

"""C01 - mass conservation at every node at every reported step (trace validation, ObsTrace/Hydraulics.tla)."""
import random
import common
import hyd
import netgen


def gen_scenarios(rnd, n, start_id=1):
    out = []
    for i in range(n):
        s = netgen.gen(rnd, start_id + i)
        if i % 4 == 0:
            s["all"] = False          # report grid instead of every solved step
        if i % 5 == 3 and s["patterns"] and not s.get("interp"):
            # a pattern that does not repeat, short enough to end (and one step later still be over) inside the run
            name = sorted(s["patterns"])[0]
            s["patterns"][name] = s["patterns"][name][:max(2, min(len(s["patterns"][name]), (s["Dur"] // s["Pat"]) // 2))]
            if s["patterns"][name][0] == 0:
                s["patterns"][name][0] = 0.75
            s["nowrap"] = [name]
            s["PatStart"] = 0
        if i % 5 == 1 and s["mode"] == "DD":
            # linear pattern interpolation, pattern step a multiple of or unrelated to the hydraulic step
            s["interp"] = True
            s["Pat"] = rnd.choice([2 * s["H"], 3 * s["H"], 5400, s["H"]])
            s["PatStart"] = rnd.choice([0, s["Pat"], 900, 2 * s["Pat"] + 1200])
        out.append(s)
    return out


def main(tier, replay):
    ck = common.Check("C01", "model_checking", tier)
    rnd = random.Random(common.SEED + 101)
    props = ["C01"]
    if replay:
        scns = [common.load_replay(replay)["detail"]["scn"]]
    else:
        scns = gen_scenarios(rnd, 160 if tier == "quick" else 4000)
    good = hyd.validate(ck, "C01", scns, props)
    if not replay:
        def mutate(s, rows):
            jn = {n["name"] for n in s["nodes"] if n["type"] == "J"}
            # a link that carries water into a junction (so the junction is connected and its balance is judged)
            l = next((x["name"] for x in s["links"] if (x["a"] in jn or x["b"] in jn) and abs(rows[-1]["flow"][x["name"]]) > 1e-5), None)
            if l is None:
                return None
            rows[-1]["flow"][l] += 1e-4
            return "flow of %s +1e-4" % l
        hyd.selftest(ck, "C01", good, props, mutate)
        if len(good) < len(scns) // 2:
            raise common.MachineryError("too few converged scenarios: %d of %d" % (len(good), len(scns)))
    hyd.finish_cov(ck, good, "seeded random networks (netgen): 3-7 junctions, 1-3 reservoirs, 0-2 tanks, loops, parallel links, "
                   "links reversed into sources, CV / closed pipes, pumps, valves, leaks, time controls, 0-3 demand "
                   "categories with patterns, pattern_start, demand multiplier, DD and PDD; every node x reported row is a "
                   "clause instance; distinct by feature signature and size")
    ck.assumptions += ["solver convergence criterion max|residual| < 1e-6 (clause tolerance 2e-6)",
                       "non-converged runs are counted and not asserted (C16 covers them)"]
    return ck.finish()

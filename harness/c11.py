"""C11 - simulating never alters the model definition; reset and rerun reproduce results.
T: traces [to_dict, run, to_dict, reset, run, to_dict, ...] with both simulators on models with controls that change
   statuses and valve settings, leaks, rules, PDD; the canonicalised dictionaries are compared structurally by TLC
   (Same.tla) and the result tables of run 1 / run 2 / a deepcopy by TLC (Agree.tla).
M: WntrSim.tla property DefinitionUnchanged ([][scn' = scn]_vars) on the time-family scenarios."""
import concurrent.futures as cf
import copy
import json
import random
import common
import c04
import netgen
import simnet


def canon(x):
    """canonical JSON-able value: floats -> repr strings, tuples -> lists, keys sorted, numpy scalars unwrapped"""
    import numpy as np
    if isinstance(x, dict):
        return {str(k): canon(v) for k, v in sorted(x.items(), key=lambda kv: str(kv[0]))}
    if isinstance(x, (list, tuple)):
        return [canon(v) for v in x]
    if isinstance(x, (bool, np.bool_)):
        return bool(x)
    if isinstance(x, (int, np.integer)):
        return "i%d" % int(x)
    if isinstance(x, (float, np.floating)):
        f = float(x)
        return "f%d" % int(f) if f == int(f) and abs(f) < 1e15 else "f" + repr(f)
    if x is None:
        return "null"
    if isinstance(x, np.ndarray):
        return [canon(v) for v in x.tolist()]
    return "s" + str(x)


def diff_paths(a, b, path=""):
    if type(a) != type(b):
        return [path]
    if isinstance(a, dict):
        out = []
        for k in sorted(set(a) | set(b)):
            if k not in a or k not in b:
                out.append(path + "/" + k)
            else:
                out += diff_paths(a[k], b[k], path + "/" + k)
        return out
    if isinstance(a, list):
        if len(a) != len(b):
            return [path + "[len]"]
        out = []
        for i, (x, y) in enumerate(zip(a, b)):
            out += diff_paths(x, y, path + "[%d]" % i)
        return out
    return [] if a == b else [path]


def rows_of(s, r):
    out = []
    for i, t in enumerate(r.node["head"].index):
        num = {}
        for n in s["nodes"]:
            num["h_" + n["name"]] = float(r.node["head"][n["name"]].iloc[i])
            num["d_" + n["name"]] = float(r.node["demand"][n["name"]].iloc[i])
        for l in s["links"]:
            num["q_" + l["name"]] = float(r.link["flowrate"][l["name"]].iloc[i])
        out.append({"t": int(t), "num": {k: common.num(v) for k, v in num.items()},
                    "st": {l["name"]: int(r.link["status"][l["name"]].iloc[i]) for l in s["links"]}})
    return out


def one(s):
    w = common.import_wntr()
    C = w.network.controls
    try:
        wn = simnet.build(w, s)
        # extra controls on valve settings / pump status so that run-time state diverges from the definition
        for k, l in enumerate(s["links"]):
            link = wn.get_link(l["name"])
            if l["type"] in ("PRV", "PSV", "FCV", "TCV"):
                act = C.ControlAction(link, "setting", l["setting"] * 0.5)
                wn.add_control("set%d" % k, C.Control(C.SimTimeCondition(wn, "=", s["H"]), act))
            if l["type"] in ("headpump", "powerpump"):
                act = C.ControlAction(link, "status", w.network.LinkStatus.Closed)
                wn.add_control("off%d" % k, C.Control(C.SimTimeCondition(wn, "=", 2 * s["H"]), act))
            if l["type"] == "powerpump" and s.get("power_control"):
                # a control that changes the power of a pump during the run
                wn.add_control("pow%d" % k, C.Control(C.SimTimeCondition(wn, "=", s["H"]), C.ControlAction(link, "power", l["power"] * 1.5)))
        if s.get("from_inp"):
            # the subject is what the INP reader makes of the model's file, with a hand-written [STATUS] line that gives an
            # active valve another setting than [VALVES] does (EPANET: the [STATUS] value is the initial setting)
            import tempfile, os, shutil
            d0 = tempfile.mkdtemp(prefix="c11i_", dir=common.scratch())
            try:
                f = os.path.join(d0, "m.inp")
                rt0 = wn.options.time.report_timestep        # 'ALL' cannot be written
                if isinstance(rt0, str):
                    wn.options.time.report_timestep = s["H"]
                w.network.write_inpfile(wn, f)
                U = w.epanet.util
                fu = U.FlowUnits[wn.options.hydraulic.inpfile_units]
                extra = []
                for l in s["links"]:
                    if l["type"] in ("PRV", "PSV", "FCV", "TCV") and l["init"] == 2:
                        v = l["setting"] * 0.75
                        if l["type"] in ("PRV", "PSV"):
                            v = U.from_si(fu, v, U.HydParam.Pressure)
                        elif l["type"] == "FCV":
                            v = U.from_si(fu, v, U.HydParam.Flow)
                        extra.append("%s %.8g" % (l["name"], v))
                text = open(f).read()
                if "[STATUS]\n" not in text:
                    raise common.MachineryError("written INP file has no [STATUS] section")
                open(f, "w").write(text.replace("[STATUS]\n", "[STATUS]\n" + "\n".join(extra) + "\n", 1))
                wn = w.network.read_inpfile(f)
                wn.options.time.report_timestep = rt0
            finally:
                shutil.rmtree(d0, ignore_errors=True)
        dicts = [canon(wn.to_dict())]
        cp = copy.deepcopy(wn)
        results = []
        kinds = []
        # the documented way to rerun is a new simulator; reusing the simulator object after a reset must work as well
        sim = w.sim.WNTRSimulator(wn) if s.get("reuse_sim") else None
        for cyc in range(s.get("cycles", 2)):
            try:
                r, _ = simnet.run_wntr(w, wn, sim=sim, HW_approx=s["hw"])
            except Exception as e:
                if cyc == 0:
                    raise
                return {"rerun_exc": "run %d after reset raised %s: %s" % (cyc + 1, type(e).__name__, str(e)[:120]), "scn": s}
            if r.error_code is not None:
                return None
            results.append(r)
            dicts.append(canon(wn.to_dict())); kinds.append("after WNTRSimulator run %d" % (cyc + 1))
            wn.reset_initial_values()
            dicts.append(canon(wn.to_dict())); kinds.append("after reset_initial_values %d" % (cyc + 1))
        epa = None
        if s.get("epanet"):
            try:
                import tempfile, os
                d = tempfile.mkdtemp(prefix="c11_", dir=common.scratch())
                # EPANET on the pristine copy, and on the model right after a WNTRSimulator run that was NOT followed by a reset:
                # the run changed no definition, so EPANET must compute the same
                # (EPANET needs a numeric report step: both models get the hydraulic step for these runs)
                cp2 = copy.deepcopy(cp)
                rt = wn.options.time.report_timestep
                cp2.options.time.report_timestep = wn.options.time.report_timestep = s["H"]
                e0 = w.sim.EpanetSimulator(cp2).run_sim(file_prefix=os.path.join(d, "p"))
                simnet.run_wntr(w, wn, HW_approx=s["hw"])
                e1 = w.sim.EpanetSimulator(wn).run_sim(file_prefix=os.path.join(d, "t"))
                wn.options.time.report_timestep = rt
                dicts.append(canon(wn.to_dict())); kinds.append("after EpanetSimulator run")
                epa = (rows_of(s, e0), rows_of(s, e1))
                wn.reset_initial_values()
            except Exception:
                epa = None
            finally:
                if "rt" in dir():
                    wn.options.time.report_timestep = rt
        rc, _ = simnet.run_wntr(w, cp, HW_approx=s["hw"])
        if rc.error_code is not None:
            return None
    except Exception as e:
        return {"exc": "%s: %s" % (type(e).__name__, str(e)[:160]), "scn": s}
    return {"scn": s, "dicts": dicts, "kinds": kinds, "runs": [rows_of(s, r) for r in results], "copy": rows_of(s, rc), "epa": epa}


def ptag(s):
    """input class of the open finding: a control whose action writes the power of a pump"""
    return " [a control changes the power of a pump]" if s.get("power_control") and any(l["type"] == "powerpump" for l in s["links"]) else ""


def main(tier, replay):
    ck = common.Check("C11", "model_checking", tier)
    rnd = random.Random(common.SEED + 1111)
    if replay:
        scns = [common.load_replay(replay)["detail"]["scn"]]
    else:
        # ---- M on the algorithmic model
        tf = []
        for o in list(c04.options_grid())[::7]:
            for b in list(c04.s1_bodies())[::9]:
                s = dict(o); s.update(copy.deepcopy(b)); s["pauses"] = []; tf.append(s)
        for i, s in enumerate(tf):
            s["id"] = i + 1
        c04.expected_from_spec(tf, ck)
        ck.cov["counters"]["model_scenarios_definition_unchanged"] = len(tf)
        scns = []
        for i in range(100 if tier == "quick" else 2500):
            s = netgen.gen(rnd, i + 1)
            s["cycles"] = rnd.choice([1, 2, 2, 3])
            s["epanet"] = rnd.random() < 0.4
            s["reuse_sim"] = i % 3 == 0
            s["power_control"] = i % 4 == 1
            s["from_inp"] = i % 5 == 2 and not s["power_control"]
            scns.append(s)
    with cf.ProcessPoolExecutor(max_workers=common.NCPU) as ex:
        outs = [o for o in ex.map(one, scns, chunksize=4) if o is not None]
    same, agree, meta = [], [], []
    for o in outs:
        if "exc" in o:
            ck.count("raised")
            continue
        if "rerun_exc" in o:
            ck.violation("C11.reset_reproduces", "%s :: reuse_sim=%s :: %s" % (" ".join(sorted(netgen.features_of(o["scn"]))),
                                                                            bool(o["scn"].get("reuse_sim")), o["rerun_exc"]), {"scn": o["scn"]})
            continue
        s = o["scn"]
        for k, d in zip(o["kinds"], o["dicts"][1:]):
            same.append({"clause": "C11.def_unchanged", "x": o["dicts"][0], "y": d})
            meta.append(("same", s, k, o["dicts"][0], d))
        keys = {"numkeys": sorted(o["copy"][0]["num"]) if o["copy"] else [], "stkeys": sorted(o["copy"][0]["st"]) if o["copy"] else [],
                "atol": common.num(2e-4), "rtol": common.num(1e-4), "qsmall": common.num(1e-4), "boundary": [],
                "clause2": "C11.times", "clause3": "C11.times"}
        for j, r in enumerate(o["runs"][1:]):
            agree.append(dict(keys, clause="C11.reset_reproduces", a=o["runs"][0], b=r))
            meta.append(("agree", s, "run %d vs run 1" % (j + 2), None, None))
        agree.append(dict(keys, clause="C11.copy_equal", a=o["runs"][0], b=o["copy"]))
        meta.append(("agree", s, "deepcopy vs original", None, None))
        if o.get("epa") and o["epa"][0] and len(o["epa"][0]) == len(o["epa"][1]):
            agree.append(dict(keys, clause="C11.copy_equal", a=o["epa"][0], b=o["epa"][1]))
            meta.append(("agree", s, "EpanetSimulator after an unreset WNTRSimulator run vs the pristine copy", None, None))
        ck.nontrivial(" ".join(sorted(netgen.features_of(s))))
        ck.count("models")
        ck.count("run_reset_cycles", len(o["runs"]))
    v1 = common.run_cases("Same", same, check=ck)
    ms = [m for m in meta if m[0] == "same"]
    for gi, payload in v1:
        _, s, kind, d0, d1 = ms[gi]
        paths = diff_paths(d0, d1)[:4]
        import re
        ck.violation("C11.def_unchanged", "%s :: %s%s" % (kind.rstrip(" 0123456789"), ", ".join(re.sub(r"/[A-Z]+\d+", "/<name>", p) for p in paths),
                                                        ptag(s)), {"scn": s, "paths": paths})
    v2 = common.run_cases("Agree", agree, check=ck)
    ma = [m for m in meta if m[0] == "agree"]
    for gi, payload in v2:
        _, s, kind, _, _ = ma[gi]
        for cl in common.parse_set(payload):
            ck.violation(cl, "%s :: %s%s" % (kind.rstrip(" 0123456789") if "run" in kind else kind, " ".join(sorted(netgen.features_of(s))),
                                             ptag(s)), {"scn": s})
    ck.cov["evaluations"] = len(same) + len(agree)
    ck.cov["traces_validated_against_impl"] = ck.cov["counters"].get("models", 0)
    ck.cov["rule"] = ("random feature-rich models (netgen) with extra time controls on valve settings and pump statuses, leaks, "
                      "level limits, PDD; 1-3 run/reset cycles with WNTRSimulator, optionally an EpanetSimulator run; the "
                      "canonicalised to_dict() after every run and reset must equal the initial one; run k vs run 1 and a deepcopy "
                      "vs the original must give equal tables (1e-9)")
    if outs:
        ck.sample({"dict_keys": sorted(outs[0]["dicts"][0].keys()) if "dicts" in outs[0] else None, "checks": outs[0].get("kinds")})
    if not replay and same:
        bad = copy.deepcopy(same[0])
        bad["y"]["options"] = dict(bad["y"].get("options", {}), ghost="s1")
        if not common.run_cases("Same", [bad], nproc=1):
            raise common.MachineryError("binding self-test: altered dictionary accepted")
    ck.assumptions += ["the definition is what wn.to_dict() contains"]
    return ck.finish()

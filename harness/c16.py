"""C16 - runs terminate with well-formed results and never hide a failed step (fault enumeration).
M: WntrSim.tla with the environment action SolveFails: for time-family scenarios and every failure index TLC checks the
   invariant FailStop and the liveness property Terminates (weak fairness on the loop).
Fault enumeration against the code: for every scenario the k-th call at the solver boundary (wntr.sim.core._solver_helper)
   is made to fail for EVERY k of the clean run, with convergence_error False and True, with and without a backup solver;
   plus natural failures (MAXITER too small).  Each outcome (rows, error_code, warnings, exception, table shape) is judged
   by TLC (FailStop.tla) against the clean run."""
import concurrent.futures as cf
import copy
import json
import math
import random
import signal
import common
import c04
import netgen
import simnet


def _run(w, wn, s, fail_at, conv_err, backup, natural=False):
    """returns (results or None, outcome dict, tfail)"""
    import warnings
    import wntr.sim.core as core
    from wntr.sim.solvers import SolverStatus
    calls = {"n": 0, "tfail": -1}
    orig = core._solver_helper

    def helper(model, solver, opts):
        calls["n"] += 1
        if fail_at and calls["n"] >= fail_at and calls["tfail"] < 0:
            calls["tfail"] = int(wn.sim_time)
        if fail_at and calls["n"] >= fail_at:         # primary and backup solver both fail from the k-th call on
            return SolverStatus.error, "injected failure", 0
        return orig(model, solver, opts)
    out = {"returned": False, "raised": False, "err": False, "warned": False, "finite": True, "cols_ok": True,
           "same_index": True, "timed_out": False}
    res = None

    def on_alarm(signum, frame):
        raise TimeoutError()
    signal.signal(signal.SIGALRM, on_alarm)
    signal.alarm(120)
    core._solver_helper = helper
    try:
        with warnings.catch_warnings(record=True) as wl:
            warnings.simplefilter("always")
            kw = dict(convergence_error=conv_err, HW_approx=s.get("hw", "default"))
            if backup:
                kw["backup_solver"] = w.sim.solvers.NewtonSolver
            if natural:
                kw["solver_options"] = {"MAXITER": 1}
            sim = w.sim.WNTRSimulator(wn)
            res = sim.run_sim(**kw)
        out["returned"] = True
        out["err"] = res.error_code is not None
        out["warned"] = any("did not converge" in str(x.message) or "Exceeded" in str(x.message) for x in wl)
    except TimeoutError:
        out["timed_out"] = True
    except RuntimeError as e:
        out["raised"] = True
        out["exc"] = str(e)[:100]
    except Exception as e:
        out["raised"] = True
        out["exc"] = "%s: %s" % (type(e).__name__, str(e)[:100])
        out["wrong_exception"] = True
    finally:
        signal.alarm(0)
        core._solver_helper = orig
    return res, out, calls


def table(wn, res, out):
    """rows [t, vals] of a results object; fills the well-formedness facts (tables that cannot even be read are malformed)"""
    try:
        return _table(wn, res, out)
    except Exception as e:
        out["cols_ok"] = False
        out["malformed"] = "%s: %s" % (type(e).__name__, str(e)[:100])
        return []


def _table(wn, res, out):
    import numpy as np
    nodes = list(wn.node_name_list)
    links = list(wn.link_name_list)
    idx = None
    rows = []
    for key in ("head", "pressure", "demand", "leak_demand"):
        df = res.node[key]
        if sorted(df.columns) != sorted(nodes) or len(set(df.columns)) != len(df.columns):
            out["cols_ok"] = False
        if idx is None:
            idx = list(df.index)
        elif list(df.index) != idx:
            out["same_index"] = False
        if not np.isfinite(df.values.astype(float)).all():
            out["finite"] = False
    for key in ("flowrate", "status", "setting", "velocity"):
        df = res.link[key]
        if sorted(df.columns) != sorted(links) or len(set(df.columns)) != len(df.columns):
            out["cols_ok"] = False
        if list(df.index) != idx:
            out["same_index"] = False
        if not np.isfinite(df.values.astype(float)).all():
            out["finite"] = False
    if not out["finite"] or not out["cols_ok"]:
        return [{"t": int(t), "vals": []} for t in idx]
    for i, t in enumerate(idx):
        vals = [float(res.node["head"][n].iloc[i]) for n in nodes] + [float(res.node["demand"][n].iloc[i]) for n in nodes] + \
               [float(res.link["flowrate"][l].iloc[i]) for l in links] + [float(res.link["status"][l].iloc[i]) for l in links]
        rows.append({"t": int(t), "vals": [common.num(v) for v in vals]})
    return rows


def enumerate_faults(job):
    """job = (kind, scenario, max_k) -> list of FailStop cases"""
    kind, s, cap = job
    w = common.import_wntr()

    def build():
        return simnet.time_family_network(w, s) if kind == "time" else simnet.build(w, s)
    try:
        wn = build()
        res, out, calls = _run(w, wn, s, 0, False, False)
    except Exception as e:
        return [{"build_exc": "%s: %s" % (type(e).__name__, str(e)[:120]), "scn": s}]
    rep = s.get("Rep", 0) if kind == "time" else (0 if s.get("all", True) else s["H"])
    cases = []
    if not out["returned"] or out["err"]:
        # the clean run itself fails naturally: judge it on its own (no clean reference: prefix = what it reported)
        rows = table(wn, res, out) if out["returned"] else []
        c = {"clean": rows, "faulty": rows, "tfail": (rows[-1]["t"] + 1) if rows else 0, "conv_err": False, "out": out, "Rep": rep,
             "k": 0, "natural": True, "scn": s, "kind": kind}
        if out["returned"] and not out["err"]:
            c["tfail"] = -1
        # a natural failure of the clean run: also with convergence_error=True it must raise RuntimeError
        wn2 = build()
        res2, out2, _ = _run(w, wn2, s, 0, True, False)
        c2 = {"clean": rows, "faulty": [], "tfail": c["tfail"], "conv_err": True, "out": out2, "Rep": rep, "k": 0,
              "natural": True, "scn": s, "kind": kind}
        return [c, c2]
    clean = table(wn, res, out)
    cases.append({"clean": clean, "faulty": clean, "tfail": -1, "conv_err": False, "out": out, "Rep": rep, "k": 0,
                  "natural": False, "scn": s, "kind": kind})
    n = calls["n"]
    ks = list(range(1, n + 1))
    if len(ks) > cap:
        rnd = random.Random(s["id"])
        ks = sorted(set([1, 2, n] + rnd.sample(ks, cap - 3)))
    for k in ks:
        for conv_err, backup in ((False, False), (True, False), (False, True)) if k % 3 == 1 else ((False, k % 2 == 0), (True, False)):
            wn2 = build()
            res2, out2, calls2 = _run(w, wn2, s, k, conv_err, backup)
            rows = table(wn2, res2, out2) if out2["returned"] else []
            cases.append({"clean": clean, "faulty": rows, "tfail": calls2["tfail"], "conv_err": conv_err, "out": out2, "Rep": rep,
                          "k": k, "natural": False, "scn": s, "kind": kind, "backup": backup})
    # natural failure: the Newton iteration limit is too small
    wn3 = build()
    res3, out3, calls3 = _run(w, wn3, s, 0, False, False, natural=True)
    if out3["returned"] and out3["err"]:
        rows = table(wn3, res3, out3)
        tf = (rows[-1]["t"] + 1) if rows else 0
        cases.append({"clean": [r for r in clean if r["t"] < tf] if True else clean, "faulty": rows, "tfail": tf, "conv_err": False,
                      "out": out3, "Rep": rep, "k": -1, "natural": True, "scn": s, "kind": kind, "loose": True})
    return cases


def ill_posed_valves(rnd):
    """valve arrangements that leave a head undetermined (every link into a junction is an active flow / pressure-sustaining
    valve) or over-determine it (two PRVs with different settings into one junction): a run on them cannot be solved and must
    say so the documented way"""
    import c02
    out = []
    for k, (va, vb) in enumerate((("FCV", None), ("FCV", "PSV"), ("PRV", "PRV"), ("FCV", "FCV"))):
        s = c02.base(9800 + k, "default")
        s["patterns"] = {}
        s["Dur"] = 3 * s["H"]
        s["nodes"] = [{"name": "R0", "type": "R", "elev": 0.0, "head": 60.0, "pat": ""}, c02.junction("J0", 5.0, [{"base": 0.004, "pat": ""}]),
                      c02.junction("J1", 2.5, [{"base": 0.003, "pat": ""}])]

        def valve(name, t, setting):
            return {"name": name, "type": t, "a": "J0", "b": "J1", "diam": 0.3, "minor": 0.0, "setting": setting, "init": 2}
        sets = {"FCV": 0.01, "PSV": 30.0, "PRV": 25.0}
        s["links"] = [{"name": "P0", "type": "pipe", "a": "R0", "b": "J0", "len": 300.0, "diam": 0.3, "rough": 100.0, "minor": 0.0,
                       "cv": False, "init": 1}, valve("V1", va, sets[va])]
        if vb:
            s["links"].append(valve("V2", vb, sets[vb] + (10.0 if vb == va == "PRV" else 0.0) + (0.005 if vb == va == "FCV" else 0.0)))
        out.append(s)
    return out


def oscillating_controls(rnd):
    """two pressure controls that contradict each other (close the by-pass when the pressure is high, open it when it is
    low, with the open-pressure above the close-pressure): the status flips at every trial until the trial limit is exceeded -
    a step that cannot be solved and must be reported as such"""
    import c02
    out = []
    for k in range(3):
        s = c02.base(9900 + k, "default")
        s["patterns"] = {}
        s["Dur"] = 3 * s["H"]
        s["trials"] = rnd.choice([3, 5, 8])
        s["nodes"] = [{"name": "R0", "type": "R", "elev": 0.0, "head": 50.0, "pat": ""}, c02.junction("J1", 0.0, [{"base": 0.03, "pat": ""}])]

        def pipe(name, d, init):
            return {"name": name, "type": "pipe", "a": "R0", "b": "J1", "len": 1000.0, "diam": d, "rough": 100.0, "minor": 0.0, "cv": False, "init": init}
        s["links"] = [pipe("PA", 0.15, 1), pipe("PB", 0.3, 1)]
        # with PB open the pressure at J1 is ~49 m, with PB closed ~25 m: both controls are triggered in turn
        s["cctl"] = [{"node": "J1", "attr": "pressure", "rel": ">", "thr": 40.0, "link": "PB", "what": "status", "val": 0, "prio": 3},
                     {"node": "J1", "attr": "pressure", "rel": "<", "thr": 35.0, "link": "PB", "what": "status", "val": 1, "prio": 3}]
        out.append(s)
    return out


def main(tier, replay):
    ck = common.Check("C16", "fault_enumeration", tier)
    rnd = random.Random(common.SEED + 1616)
    if replay:
        d = common.load_replay(replay)["detail"]
        jobs = [(d["kind"], d["scn"], 400)]
    else:
        # ---- M: SolveFails at every index, FailStop + Terminates
        tf = []
        pool = []
        for o in list(c04.options_grid())[::5]:
            if o["Dur"] != 86400:
                continue
            for b in list(c04.s1_bodies())[::11] + list(c04.s1b_bodies())[::17]:
                s = dict(o); s.update(copy.deepcopy(b))
                # FailStop compares with the declarative timeline: leave out the input class of the open C04 finding
                # (rule atoms 'TIME = th'), which C04 / C10 report themselves
                if '"rel": "="' in json.dumps(s["rules"]):
                    continue
                pool.append(s)
        rnd.shuffle(pool)
        for s in pool[:30 if tier == "quick" else 400]:
            for k in (0, 1, 2, 3, 5, 9, 17, 25):
                x = copy.deepcopy(s); x["failAt"] = k; x["convErr"] = bool(k % 2); x["pauses"] = []
                tf.append(x)
        for i, s in enumerate(tf):
            s["id"] = i + 1
        c04.expected_from_spec(tf, ck, liveness=True)
        ck.cov["counters"]["model_runs_with_SolveFails"] = len(tf)
        # ---- fault enumeration against the code
        jobs = []
        tsc = pool[:14 if tier == "quick" else 300]
        for i, s in enumerate(tsc):
            s = copy.deepcopy(s); s["id"] = i + 1; s["pauses"] = []
            jobs.append(("time", s, 10 if tier == "quick" else 40))
        for i in range(26 if tier == "quick" else 700):
            jobs.append(("general", netgen.gen(rnd, 9000 + i), 8 if tier == "quick" else 30))
        # small multigraphs with valves that controls close, open and activate (parallel valves, valves that isolate parts):
        # whatever cannot be solved must be reported the documented way
        import c09
        jobs += [("general", sc, 3) for sc in ill_posed_valves(rnd)]
        jobs += [("general", sc, 3) for sc in oscillating_controls(rnd)]
        for i in range(24 if tier == "quick" else 500):
            jobs.append(("general", c09.multigraph_scenario(rnd, 9500 + i), 3 if tier == "quick" else 10))
    with cf.ProcessPoolExecutor(max_workers=common.NCPU) as ex:
        outs = list(ex.map(enumerate_faults, jobs, chunksize=1))
    cases = []
    for o in outs:
        for c in o:
            if "build_exc" in c:
                ck.count("build_failed")
                continue
            cases.append(c)
    enc = []
    for c in cases:
        e = {k: c[k] for k in ("clean", "faulty", "tfail", "conv_err", "Rep")}
        e["Dur"], e["H"] = int(c["scn"]["Dur"]), int(c["scn"]["H"])
        e["out"] = {k: bool(c["out"].get(k, False)) for k in ("returned", "raised", "err", "warned", "finite", "cols_ok",
                                                             "same_index", "timed_out")}
        if c.get("loose"):
            e["clean"] = c["faulty"]        # a natural MAXITER failure has no comparable clean prefix (every solve is affected)
        enc.append(e)
    verdicts = common.run_cases("FailStop", enc, check=ck)
    for gi, payload in verdicts:
        c = cases[gi]
        for cl in common.parse_set(payload):
            what = "natural failure" if c["natural"] else ("injected failure k=%s" % ("first" if c["k"] == 1 else "later") if c["k"] else "clean run")
            sig = "%s :: %s conv_err=%s backup=%s :: %s" % (cl, what, c["conv_err"], c.get("backup", False),
                                                           c["out"].get("exc", "")[:60] if cl == "C16.fail_signalled" else c["kind"])
            ck.violation(cl, sig, {"kind": c["kind"], "scn": c["scn"], "k": c["k"], "out": c["out"]})
    for c in cases:
        ck.count("runs")
        if c["k"] > 0:
            ck.count("injected_failures")
        if c["natural"]:
            ck.count("natural_failures")
        if c["out"].get("raised"):
            ck.count("runs_raising")
        ck.nontrivial([c["kind"], c["scn"]["id"], c["k"], c["conv_err"], c.get("backup", False)])
    ck.cov["evaluations"] = len(cases)
    ck.cov["traces_validated_against_impl"] = len(cases)
    ck.cov["rule"] = ("for each scenario (time-family control schedules and random feature-rich networks) the clean run, then a run "
                      "for every index k of a call at the solver boundary failing (all k up to a cap, then first/second/last + sample), "
                      "with convergence_error False/True and with/without a backup solver, plus MAXITER=1 natural failures; each run "
                      "under a 120 s alarm; distinct by (scenario, k, options)")
    if cases:
        c = cases[min(3, len(cases) - 1)]
        ck.sample({"kind": c["kind"], "k": c["k"], "conv_err": c["conv_err"], "outcome": c["out"],
                   "clean_times": [r["t"] for r in c["clean"]][:10], "faulty_times": [r["t"] for r in c["faulty"]][:10]})
    if not replay and enc:
        bad = copy.deepcopy(next(e for e, c in zip(enc, cases) if c["k"] > 0 and not c["conv_err"] and c["out"]["returned"]))
        bad["out"]["err"] = False           # a failure that is not signalled
        if not common.run_cases("FailStop", [bad], nproc=1):
            raise common.MachineryError("binding self-test: unsignalled failure accepted")
        if not ck.cov["counters"].get("injected_failures"):
            ck.vacuity("vacuity: no injected failure")
    ck.assumptions += ["failures are injected at wntr.sim.core._solver_helper (the public solver boundary of run_sim); a missing symbol "
                       "is a machinery failure", "termination is observed under a 120 s wall-clock alarm per run"]
    return ck.finish()

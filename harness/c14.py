"""C14 - all views of the model stay mutually consistent under any edit history.
M: TLC explores the abstract model (Registry.tla) and checks EndNodesExist / RefsExist / TypedPartition /
   RefusalUnchanged on every reachable state of a small universe.
R: TLC generates edit histories (exhaustive to a small depth, -simulate for long ones), each entry carrying the view the
   specification expects after the operation; every history is performed on a real WaterNetworkModel and the projection of
   the real model is compared with the expected view after every single operation, including refusals."""
import concurrent.futures as cf
import json
import os
import common

UNIVERSE = {"quick": ' NodeNames = {"n1", "n2", "n3"}\n LinkNames = {"l1", "l2"}\n PatNames = {"p1", "p2"}\n CurveNames = {"c1", "c2"}\n'
                     ' SrcNames = {"s1"}\n CtlNames = {"k1"}\n'}
MC_UNIVERSE = ' NodeNames = {"n1", "n2"}\n LinkNames = {"l1", "l2"}\n PatNames = {"p1"}\n CurveNames = {"c1"}\n SrcNames = {"s1"}\n CtlNames = {"k1"}\n'


def gen_histories(ck, mode, n, depth, seed, preload=0):
    """mode 'sim': n random histories of length depth; mode 'bfs': every history of length depth; every history is returned
    as a list of entries whose first one carries the key 'preload'"""
    cfg = ("SPECIFICATION Spec\nINVARIANT Emit\nCHECK_DEADLOCK FALSE\nCONSTANTS\n" + UNIVERSE["quick"] +
           " Record = TRUE\n MaxLen = %d\n Preload = %d\n" % (depth, preload))
    if mode == "sim":
        per = max(1, n // common.NCPU)

        def one(k):
            return common.run_tlc("Registry", cfg, workers=1, simulate="num=%d" % per, depth=depth + 1, seed=seed * 100 + k,
                                  timeout=1800)
        with cf.ThreadPoolExecutor(max_workers=common.NCPU) as ex:
            rs = list(ex.map(one, range(common.NCPU)))
    else:
        rs = [common.run_tlc("Registry", cfg, workers=1, timeout=3000)]
    hs = []
    for r in rs:
        ck.add_tlc(r)
        for tag, obj in r.prints:
            if tag == "HIST":
                hs.append(obj)
    seen, out = set(), []
    for h in hs:
        k = json.dumps([[x["op"], x["args"]] for x in h])
        if k not in seen:
            seen.add(k)
            h[0]["preload"] = preload
            if len(out) % 2:
                for x in h:
                    x["by_object"] = True
            out.append(h)
    return out


def preloaded(w, preload):
    """the real counterpart of Registry!Init"""
    wn = w.network.WaterNetworkModel()
    if preload:
        wn.add_pattern("p1", [1.0, 0.5])
        wn.add_curve("c1", "HEAD", [(0.01, 30.0)])
        wn.add_junction("n1", base_demand=0.001, elevation=1.0)
        wn.add_junction("n2", base_demand=0.001, elevation=1.0)
        wn.add_pipe("l1", "n1", "n2")
    return wn


# ----------------------------------------------------------------------------- replay on the real model
def apply(w, wn, h):
    C = w.network.controls
    op, a = h["op"], h["args"]
    if op == "add_node":
        n, t, p, c = a
        if t == "J":
            # the pattern may be given by name or as the Pattern object (every other history)
            pat = (wn.get_pattern(p) if h.get("by_object") else p) if p else None
            wn.add_junction(n, base_demand=0.001, demand_pattern=pat, elevation=1.0)
        elif t == "T":
            wn.add_tank(n, elevation=10.0, init_level=2.0, min_level=0.0, max_level=5.0, diameter=4.0, vol_curve=c or None)
        else:
            wn.add_reservoir(n, base_head=50.0, head_pattern=p or None)
    elif op == "add_link":
        l, t, x, y, c = a
        if t == "pipe":
            wn.add_pipe(l, x, y)
        elif t == "hpump":
            wn.add_pump(l, x, y, pump_type="HEAD", pump_parameter=c)
        elif t == "ppump":
            wn.add_pump(l, x, y, pump_type="POWER", pump_parameter=1000.0)
        else:
            wn.add_valve(l, x, y, valve_type=t, initial_setting=10.0)
    elif op == "add_pattern":
        wn.add_pattern(a[0], [1.0, 0.5])
    elif op == "add_curve":
        # (the spec has no curve points; a name that is or was a volume curve keeps points a tank accepts)
        vol = a[1] == "VOLUME" or a[0] in wn.curves.volume_curve_names
        wn.add_curve(a[0], a[1], [(0.0, 10.0), (2.0, 40.0), (6.0, 90.0)] if vol else [(0.01, 30.0)])
    elif op == "add_source":
        wn.add_source(a[0], a[1], "CONCEN", 1.0, a[2] or None)
    elif op == "add_control":
        k, l, n = a
        act = C.ControlAction(wn.get_link(l), "status", w.network.LinkStatus.Closed)
        if n:
            cond = C.ValueCondition(wn.get_node(n), "head", ">", 20.0)
        else:
            cond = C.SimTimeCondition(wn, "=", 3600)
        wn.add_control(k, C.Control(cond, act))
    elif op == "remove_node":
        wn.remove_node(a[0])
    elif op == "remove_node_with_controls":
        wn.remove_node(a[0], with_control=True)
    elif op == "remove_link":
        wn.remove_link(a[0])
    elif op == "remove_pattern":
        wn.remove_pattern(a[0])
    elif op == "remove_curve":
        wn.remove_curve(a[0])
    elif op == "remove_source":
        wn.remove_source(a[0])
    elif op == "remove_control":
        wn.remove_control(a[0])
    elif op == "set_start_node":
        wn.get_link(a[0]).start_node = wn.get_node(a[1])
    elif op == "set_end_node":
        wn.get_link(a[0]).end_node = wn.get_node(a[1])
    elif op == "set_speed_pattern":
        wn.get_link(a[0]).speed_pattern_name = a[1]
    elif op == "set_pump_curve":
        wn.get_link(a[0]).pump_curve_name = a[1]
    elif op == "set_vol_curve":
        wn.get_node(a[0]).vol_curve_name = a[1]
    elif op == "set_head_pattern":
        wn.get_node(a[0]).head_pattern_name = a[1]
    elif op == "set_source_node":
        wn.get_source(a[0]).node_name = a[1]
    elif op == "clear_head_pattern":
        wn.get_node(a[0]).head_pattern_name = None
    elif op == "clear_speed_pattern":
        wn.get_link(a[0]).speed_pattern_name = None
    elif op == "clear_vol_curve":
        wn.get_node(a[0]).vol_curve_name = None
    elif op == "add_demand":
        wn.get_node(a[0]).add_demand(0.002, a[1])
    else:
        raise common.MachineryError("unknown op " + op)


def project(w, wn):
    """the views of the real model, each obtained through the public API (typed iterators fully iterated)"""
    N = w.network
    v, errs = {}, []

    def names(key, fn):
        try:
            v[key] = sorted(fn())
        except Exception as e:
            v[key] = None
            errs.append("%s raised %s: %s" % (key, type(e).__name__, str(e)[:60]))
    names("nodes", lambda: list(wn.node_name_list))
    names("junctions", lambda: [n for n, _ in wn.junctions()])
    names("tanks", lambda: [n for n, _ in wn.tanks()])
    names("reservoirs", lambda: [n for n, _ in wn.reservoirs()])
    names("links", lambda: list(wn.link_name_list))
    names("pipes", lambda: [n for n, _ in wn.pipes()])
    names("pumps", lambda: [n for n, _ in wn.pumps()])
    names("head_pumps", lambda: [n for n, _ in wn.head_pumps()])
    names("power_pumps", lambda: [n for n, _ in wn.power_pumps()])
    names("valves", lambda: [n for n, _ in wn.valves()])
    names("prvs", lambda: [n for n, _ in wn.prvs()])
    names("tcvs", lambda: [n for n, _ in wn.tcvs()])
    names("patterns", lambda: list(wn.pattern_name_list))
    names("curves", lambda: list(wn.curve_name_list))
    names("sources", lambda: list(wn.source_name_list))
    names("controls", lambda: list(wn.control_name_list))
    names("pump_curves", lambda: [n for n, _ in wn.curves.pump_curves()])
    names("volume_curves", lambda: [n for n, _ in wn.curves.volume_curves()])
    for key, lst in (("pump_curves", "pump_curve_names"), ("volume_curves", "volume_curve_names")):
        try:
            if v[key] is not None and sorted(getattr(wn.curves, lst)) != v[key]:
                errs.append("curves.%s differs from its iterator" % lst)
        except Exception as e:
            errs.append("curves.%s raised %s" % (lst, type(e).__name__))
    # name lists and counts must agree with the iterators
    for key, lst, cnt in (("junctions", "junction_name_list", "num_junctions"), ("tanks", "tank_name_list", "num_tanks"),
                          ("reservoirs", "reservoir_name_list", "num_reservoirs"), ("pipes", "pipe_name_list", "num_pipes"),
                          ("pumps", "pump_name_list", "num_pumps"), ("valves", "valve_name_list", "num_valves"),
                          ("head_pumps", "head_pump_name_list", None), ("power_pumps", "power_pump_name_list", None),
                          ("nodes", "node_name_list", "num_nodes"), ("links", "link_name_list", "num_links"),
                          ("patterns", "pattern_name_list", "num_patterns"), ("curves", "curve_name_list", "num_curves"),
                          ("sources", "source_name_list", "num_sources"), ("controls", "control_name_list", "num_controls")):
        try:
            if v[key] is not None and sorted(getattr(wn, lst)) != v[key]:
                errs.append("%s differs from its iterator" % lst)
            if cnt and v[key] is not None and getattr(wn, cnt) != len(v[key]):
                errs.append("%s = %s but %d elements" % (cnt, getattr(wn, cnt), len(v[key])))
        except Exception as e:
            errs.append("%s raised %s" % (lst, type(e).__name__))
    try:
        v["ends"] = {n: [l.start_node_name, l.end_node_name] for n, l in wn.links()}
        for n, (a, b) in v["ends"].items():
            if a not in wn.node_name_list or b not in wn.node_name_list:
                errs.append("end node of %s does not exist" % n)
        adj = {n: {"in": [], "out": []} for n in wn.node_name_list}
        for n, (a, b) in v["ends"].items():
            if a in adj:
                adj[a]["out"].append(n)
            if b in adj:
                adj[b]["in"].append(n)
        for n in wn.node_name_list:
            if sorted(wn.get_links_for_node(n, "INLET")) != sorted(adj[n]["in"]) or \
               sorted(wn.get_links_for_node(n, "OUTLET")) != sorted(adj[n]["out"]) or \
               sorted(wn.get_links_for_node(n, "ALL")) != sorted(set(adj[n]["in"] + adj[n]["out"])):   # a loop is listed once
                errs.append("get_links_for_node(%s) disagrees with the links' end nodes" % n)
        G = wn.to_graph()
        if sorted((a, b, k) for a, b, k in G.edges(keys=True)) != sorted((a, b, n) for n, (a, b) in v["ends"].items()) or \
           sorted(G.nodes()) != sorted(wn.node_name_list):
            errs.append("to_graph disagrees with nodes/links")
    except Exception as e:
        v["ends"] = None
        errs.append("adjacency views raised %s: %s" % (type(e).__name__, str(e)[:60]))

    def usage(reg, keys):
        out = {}
        for k in keys:
            u = reg.get_usage(k)
            out[k] = sorted([list(x) for x in u]) if u else []
        return out
    try:
        v["node_usage"] = usage(wn.nodes, wn.node_name_list)
        v["pat_usage"] = usage(wn.patterns, wn.pattern_name_list)
        v["curve_usage"] = usage(wn.curves, wn.curve_name_list)
        for reg, nm in ((wn.nodes, "nodes"), (wn.patterns, "patterns"), (wn.curves, "curves")):
            orph = set(reg.orphaned())
            if nm == "curves":
                # the curve a head pump names may be added later (Registry.tla, AsPumpCurve): the record of such a use is
                # not stale as long as the pump exists and still names the curve
                orph -= {p.pump_curve_name for _, p in wn.head_pumps()
                         if (p.name, "Pump") in (reg.get_usage(p.pump_curve_name) or ())}
            if orph:
                errs.append("%s registry has usage records for missing elements %s" % (nm, sorted(orph)))
    except Exception as e:
        errs.append("usage views raised %s: %s" % (type(e).__name__, str(e)[:60]))
    # the usage maps must be exactly the references the elements themselves hold (Registry!View evaluated on the real
    # model's primary data): every reference has its record and every record a live reference
    try:
        pu, cu, nu = {p: set() for p in wn.pattern_name_list}, {c: set() for c in wn.curve_name_list}, {n: set() for n in wn.node_name_list}
        for n, j in wn.junctions():
            for dmd in j.demand_timeseries_list:
                if dmd.pattern_name and dmd.pattern_name in pu:
                    pu[dmd.pattern_name].add((n, "Junction"))
        for n, r in wn.reservoirs():
            if r.head_pattern_name in pu:
                pu[r.head_pattern_name].add((n, "Reservoir"))
        for n, t in wn.tanks():
            if t.vol_curve_name in cu:
                cu[t.vol_curve_name].add((n, "Tank"))
        for n, l in wn.links():
            nu[l.start_node_name].add((n, l.link_type)); nu[l.end_node_name].add((n, l.link_type))
        for n, pmp in wn.pumps():
            if pmp.speed_pattern_name in pu:
                pu[pmp.speed_pattern_name].add((n, "Pump"))
            if getattr(pmp, "pump_curve_name", None) in cu:
                cu[pmp.pump_curve_name].add((n, "Pump"))
        for n, src in wn.sources():
            nu[src.node_name].add((n, "Source"))
            if src.strength_timeseries.pattern_name in pu:
                pu[src.strength_timeseries.pattern_name].add((n, "Source"))
        for reg, want, nm in ((wn.patterns, pu, "pattern"), (wn.curves, cu, "curve"), (wn.nodes, nu, "node")):
            for k, w_ in want.items():
                got = set(tuple(x) for x in (reg.get_usage(k) or []))
                if got != w_:
                    errs.append("%s usage of %s is %s but the elements refer to it as %s" % (nm, "<name>", sorted(got), sorted(w_)))
    except Exception as e:
        errs.append("reference scan raised %s: %s" % (type(e).__name__, str(e)[:60]))
    try:
        d = wn.describe(level=1)
        got = (d["Nodes"]["Junctions"], d["Nodes"]["Tanks"], d["Nodes"]["Reservoirs"], d["Links"]["Pipes"], d["Links"]["Pumps"],
               d["Links"]["Valves"], d["Patterns"], d["Sources"], d["Controls"])
        want = tuple(len(v[k] or []) for k in ("junctions", "tanks", "reservoirs", "pipes", "pumps", "valves", "patterns",
                                               "sources", "controls"))
        if got != want:
            errs.append("describe() counts %s differ from the iterators %s" % (got, want))
    except Exception as e:
        errs.append("describe raised %s" % type(e).__name__)
    return v, errs


def expected_view(view):
    e = {}
    for k, x in view.items():
        if k in ("ends",):
            e[k] = {n: list(p) for n, p in (x.items() if isinstance(x, dict) else [])}
        elif k.endswith("_usage"):
            e[k] = {n: sorted([list(t) for t in u]) for n, u in (x.items() if isinstance(x, dict) else [])}
        else:
            e[k] = sorted(x)
    return e


def replay(hist):
    """returns list of (step, clause, detail)"""
    w = common.import_wntr()
    wn = preloaded(w, hist[0].get("preload", 0) if hist else 0)
    out = []
    for i, h in enumerate(hist):
        before, _ = project(w, wn)
        try:
            apply(w, wn, h)
            res = "ok"
        except common.MachineryError:
            raise
        except Exception as e:
            res = "refused"
            exc = "%s: %s" % (type(e).__name__, str(e)[:80])
        got, errs = project(w, wn)
        want = expected_view(h["view"])
        sig = "%s(%s)" % (h["op"], ",".join(str(x) for x in h["args"] if isinstance(x, str)))
        if res != h["out"]:
            out.append((i, "C14.refusal", "%s: spec %s, model %s %s" % (sig, h["out"], res, exc if res == "refused" else "")))
            break
        if res == "refused" and got != before:
            out.append((i, "C14.refusal_unchanged", "%s refused but the model changed" % sig))
        for e in errs:
            out.append((i, "C14.views_agree", "after %s: %s" % (sig, e)))
        for k, val in want.items():
            if got.get(k) != val:
                clause = {"ends": "C14.end_nodes", "node_usage": "C14.usage", "pat_usage": "C14.usage",
                          "curve_usage": "C14.usage"}.get(k, "C14.names")
                out.append((i, clause, "after %s: view %s is %s, expected %s" % (sig, k, json.dumps(got.get(k))[:120],
                                                                               json.dumps(val)[:120])))
        if out:
            break
    if not out and hist and hist[0].get("by_object"):
        # a model produced by the INP reader must be as consistent as one built through the API
        import tempfile, os, shutil
        d = tempfile.mkdtemp(prefix="c14_", dir=common.scratch())
        try:
            f = os.path.join(d, "m.inp")
            w.network.write_inpfile(wn, f)
            _, errs = project(w, w.network.read_inpfile(f))
            for e in errs:
                out.append((len(hist) - 1, "C14.views_agree", "after write_inpfile / read_inpfile of the final model: %s" % e))
        except Exception as e:
            pass           # models that cannot be written (C12 judges the round trip itself)
        finally:
            shutil.rmtree(d, ignore_errors=True)
    return out


def norm_sig(detail):
    import re
    return re.sub(r"\b([nlpcsk])\d\b", r"\1*", detail)


def main(tier, replay_path):
    ck = common.Check("C14", "model_checking", tier)
    if replay_path:
        hs = [common.load_replay(replay_path)["detail"]["history"]]
    else:
        # ---- M
        # the action property RefusalUnchanged makes TLC build the behaviour graph: thorough tier only
        cfg = ("SPECIFICATION Spec\nINVARIANT EndNodesExist\nINVARIANT RefsExist\nINVARIANT TypedPartition\n" +
               ("PROPERTY RefusalUnchanged\n" if tier == "thorough" else "") +
               "CHECK_DEADLOCK FALSE\nCONSTRAINT Bound\nCONSTANTS\n" + MC_UNIVERSE +
               " Record = FALSE\n MaxLen = %d\n Preload = 0\n" % (5 if tier == "quick" else 6))
        r = common.run_tlc("Registry", cfg, workers=common.NCPU, timeout=3000)
        if r.violation:
            ck.violation("C14.model", "Registry.tla invariant violated", {"tlc": r.out[-3000:]})
        ck.add_tlc(r)
        ck.cov["counters"]["registry_model_states"] = r.distinct
        # ---- R  (batches are generated, replayed and dropped one after the other: the histories carry a full view per step)
        n, depth = (1600, 14) if tier == "quick" else (24000, 22)

        def batches():
            yield "bfs_histories_depth2", lambda: gen_histories(ck, "bfs", 0, 2, common.SEED)
            for k in range(max(1, n // 4000)):
                m = min(n, 4000)
                yield "simulated_histories", lambda k=k, m=m: (gen_histories(ck, "sim", m // 2, depth, common.SEED + 1 + 10 * k) +
                                                              gen_histories(ck, "sim", m // 2, depth, common.SEED + 2 + 10 * k, preload=1))
            yield "bfs_histories_depth2_populated", lambda: gen_histories(ck, "bfs", 0, 2, common.SEED, preload=1)
            if tier == "thorough":
                yield "bfs_histories_depth3", lambda: gen_histories(ck, "bfs", 0, 3, common.SEED)
    ops, total, nh, last = {}, 0, 0, None
    todo = [("replay", lambda: hs)] if replay_path else batches()
    for name, make in todo:
        hs = make()
        ck.cov["counters"][name] = ck.cov["counters"].get(name, 0) + len(hs)
        with cf.ProcessPoolExecutor(max_workers=common.NCPU) as ex:
            outs = list(ex.map(replay, hs, chunksize=8))
        for h, o in zip(hs, outs):
            for i, clause, detail in o:
                ck.violation(clause, norm_sig(detail), {"history": h, "step": i, "detail": detail})
            ck.nontrivial("/".join(x["op"] + ":" + x["out"] for x in h))
            for x in h:
                k = x["op"] + ":" + x["out"]
                ops[k] = ops.get(k, 0) + 1
        total += sum(len(h) for h in hs)
        nh += len(hs)
        if hs:
            last = hs[-1]
        del outs
    hs = [last] if last else []
    ck.cov["counters"]["operations"] = ops
    ck.cov["evaluations"] = total
    ck.cov["traces_validated_against_impl"] = nh
    ck.cov["rule"] = ("edit histories over 3 node, 2 link, 2 pattern, 2 curve, 1 source, 1 control names generated by TLC from "
                      "Registry.tla (every history of length 2 exhaustively; random histories of length 14 / 22 by -simulate); "
                      "after every operation the real model's views must equal the view the spec derives from the primary data; "
                      "distinct by operation/outcome sequence")
    if hs:
        ck.sample([{"op": x["op"], "args": x["args"], "out": x["out"]} for x in hs[-1][:8]])
    if not replay_path:
        # binding self-test: a wrong expected view must be rejected
        import copy
        h = copy.deepcopy(hs[-1])
        h[-1]["view"]["nodes"] = list(h[-1]["view"]["nodes"]) + ["ghost"]
        if not replay(h):
            raise common.MachineryError("binding self-test: perturbed expected view accepted")
        if not ops.get("remove_node:refused") or not ops.get("remove_link:ok") or not ops.get("set_speed_pattern:ok"):
            ck.vacuity("vacuity: operations missing from the generated histories: %r" % ops)
    ck.assumptions += ["operations are applied through the public API with valid arguments (existing patterns/curves/nodes)"]
    return ck.finish()

"""C02 - every link obeys the head-flow law of its type and reported status (trace validation).
Subjects: random feature-rich networks (pumps / valves emphasised) and single-link law probes in which the flow
through the link under test is swept over both signs and around zero by a demand pattern."""
import random
import common
import hyd
import netgen

MULTS = [-1.0, -0.4, -0.02, -0.001, 0.0, 0.002, 0.03, 0.2, 0.6, 1.0, 1.7]


def base(sid, hw, dm=1.0):
    return {"id": sid, "mode": "DD", "hw": hw, "H": 3600, "Pat": 3600, "PatStart": 0, "Dur": 3600 * (len(MULTS) - 1),
            "DM": dm, "pmin": 0.0, "preq": 20.0, "pexp": [1, 2], "all": True, "sweep": "", "patterns": {"SW": list(MULTS)},
            "nodes": [], "links": [], "ctl": [], "rules": []}


def junction(name, elev, dem):
    return {"name": name, "type": "J", "elev": elev, "dem": dem, "has_pdd": False, "pmin": 0.0, "preq": 0.0,
            "pexp": [1, 2], "leak": {"on": False, "area": 0.0, "cd": 0.75, "start": -1, "end": -1}}


def probes(rnd, n_each, start_id):
    out = []
    sid = start_id

    def res(name, head):
        return {"name": name, "type": "R", "elev": 0.0, "head": head, "pat": ""}
    for _ in range(n_each):                       # pipes: both orientations, CV, minor loss
        for hw in ("default", "piecewise"):
            s = base(sid, hw); sid += 1
            s["nodes"] = [res("R0", 50.0), junction("J0", 5.0, [{"base": netgen.rgrid(rnd, 0.002, 0.05, 0.002), "pat": "SW"}])]
            a, b = ("R0", "J0") if rnd.random() < 0.5 else ("J0", "R0")
            s["links"] = [{"name": "P0", "type": "pipe", "a": a, "b": b, "len": netgen.rgrid(rnd, 10, 3000, 10),
                           "diam": rnd.choice([0.1, 0.15, 0.2, 0.3, 0.45, 0.6]), "rough": float(rnd.choice([60, 80, 100, 130, 150])),
                           "minor": rnd.choice([0.0, 0.0, 1.5, 20.0]), "cv": False, "init": 1},
                          # a second path keeps J0 connected when the probe is a CV pipe that closes
                          {"name": "P1", "type": "pipe", "a": "R0", "b": "J0", "len": 500.0, "diam": 0.2, "rough": 100.0,
                           "minor": 0.0, "cv": rnd.random() < 0.3, "init": 1}]
            out.append(s)
    for _ in range(n_each):                       # pumps: demand sweeps the curve
        s = base(sid, "default"); sid += 1
        s["patterns"]["SW"] = [0.0, 0.001, 0.05, 0.2, 0.5, 0.8, 1.0, 1.2, 0.3, 0.01, 0.6]
        s["nodes"] = [res("RP", netgen.rgrid(rnd, 5, 20, 2.5)), junction("J0", 5.0, [{"base": 0.04, "pat": "SW"}])]
        if rnd.random() < 0.7:
            d = {"name": "PU0", "type": "headpump", "a": "RP", "b": "J0", "init": 1}
            d.update(netgen.pump_family(rnd, rnd.choice([1, 2, 3, 3])))
        else:
            d = {"name": "PU0", "type": "powerpump", "a": "RP", "b": "J0", "init": 1,
                 "power": netgen.rgrid(rnd, 1000, 30000, 1000)}
        s["links"] = [d]
        out.append(s)
    for vt in ("PRV", "PSV", "FCV", "TCV"):       # valves in every status
        for k in range(n_each):
            s = base(sid, rnd.choice(["default", "piecewise"])); sid += 1
            s["patterns"]["SW"] = [0.0, 0.01, 0.1, 0.3, 0.6, 1.0, 1.5, 2.0, -0.3 if vt == "TCV" else 0.2, 0.05, 0.8]
            s["nodes"] = [res("R0", 60.0), junction("J1", 5.0, []), junction("J0", 2.5, [{"base": 0.01, "pat": "SW"}]),
                          junction("J2", 0.0, [{"base": 0.002, "pat": ""}])]
            setting = {"PRV": netgen.rgrid(rnd, 10, 50, 2.5), "PSV": netgen.rgrid(rnd, 30, 60, 2.5),
                       "FCV": netgen.rgrid(rnd, 0.002, 0.012, 0.001), "TCV": netgen.rgrid(rnd, 5, 200, 5)}[vt]
            if k == 4 and vt == "PRV":
                setting = 80.0          # unreachable downstream pressure: the valve is fully open
            if k == 4 and vt == "FCV":
                setting = 0.08          # more than the demand can draw: the valve is fully open
            up = {"len": 2000.0, "diam": 0.15} if vt == "PSV" else {"len": 400.0, "diam": 0.3}
            if vt == "PSV":
                setting = netgen.rgrid(rnd, 30, 50, 2.5)
            s["links"] = [{"name": "P0", "type": "pipe", "a": "R0", "b": "J1", "len": up["len"], "diam": up["diam"],
                           "rough": 100.0, "minor": 0.0, "cv": False, "init": 1},
                          {"name": "V0", "type": vt, "a": "J1", "b": "J0", "diam": rnd.choice([0.15, 0.2, 0.3]),
                           "minor": rnd.choice([0.0, 2.0, 8.0]), "setting": setting,
                           "init": 2 if k < 5 else rnd.choice([2, 2, 1, 0])},
                          {"name": "P2", "type": "pipe", "a": "J0", "b": "J2", "len": 200.0, "diam": 0.2, "rough": 100.0,
                           "minor": 0.0, "cv": False, "init": 1}]
            # a downstream source lets the valve throttle (a PSV cannot be active when it is the only path to a
            # fixed demand) and lets it see reverse conditions
            if (vt == "PSV" and k < 4) or (k >= 5 and rnd.random() < 0.5):
                s["nodes"].append(res("R1", netgen.rgrid(rnd, 20, 40, 5) if k < 4 else netgen.rgrid(rnd, 20, 70, 5)))
                s["links"].append({"name": "P3", "type": "pipe", "a": "R1", "b": "J2", "len": 600.0, "diam": 0.2,
                                   "rough": 100.0, "minor": 0.0, "cv": False, "init": 1})
            out.append(s)
    return out


def main(tier, replay):
    ck = common.Check("C02", "model_checking", tier)
    rnd = random.Random(common.SEED + 202)
    props = ["C02"]
    if replay:
        scns = [common.load_replay(replay)["detail"]["scn"]]
    else:
        n, k = (120, 12) if tier == "quick" else (3000, 300)
        scns = [netgen.gen(rnd, i + 1) for i in range(n)]
        scns += probes(rnd, k, n + 1)
    good = hyd.validate(ck, "C02", scns, props)
    st = {}
    for s, rows in good:
        for l in s["links"]:
            for r in rows:
                key = "%s:%d" % (l["type"], r["status"][l["name"]])
                st[key] = st.get(key, 0) + 1
    ck.cov["counters"]["type_status_samples"] = st
    if not replay:
        def mutate(s, rows):
            for l in s["links"]:
                if l["type"] == "pipe" and abs(rows[-1]["flow"][l["name"]]) > 1e-3 and rows[-1]["status"][l["name"]] == 1:
                    rows[-1]["head"][l["b"]] -= 0.05 * abs(rows[-1]["head"][l["a"]] - rows[-1]["head"][l["b"]]) + 1e-3
                    return "head at end of %s shifted" % l["name"]
            return None
        hyd.selftest(ck, "C02", good, props, mutate)
        need = ["pipe:1", "pipe:0", "headpump:1", "powerpump:1", "PRV:2", "PSV:2", "FCV:2", "TCV:2", "PRV:1", "FCV:1"]
        missing = [k for k in need if not st.get(k)]
        if missing:
            ck.vacuity("vacuity: no sample for (type:status) %s" % missing)
    hyd.finish_cov(ck, good, "random networks (netgen) plus single-link law probes: pipes of either orientation with flows of "
                   "both signs and around zero in both Hazen-Williams modes, 1/2/3-point head pumps and power pumps swept along "
                   "their curve, PRV/PSV/FCV/TCV with initial status active/open/closed; every link x reported row is a clause "
                   "instance of the law selected by (type, reported status)")
    ck.assumptions += ["tolerances: 2e-6 (2 x solver tolerance) + documented smoothing term 1e-5*sqrt(k)*|q| + 1e-4 relative on "
                       "the friction term (covers hw_k 10.66683 vs the documented 10.667)",
                       "inside the smoothing bands (|q| < 4e-4 pipes, q < 1e-6 pumps) only oddness and the bound are checked",
                       "rational powers are decided through verified witnesses (PowCert), relative 1e-6"]
    return ck.finish()

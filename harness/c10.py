"""C10 - pausing, pickling and restarting a simulation equals running it uninterrupted.
M+R (time family): WntrSim.tla has the NewRun action (run_sim returns at a pause duration and a new simulator continues);
   TLC checks that with any pauses the algorithm still refines the declarative timeline and emits it; the real simulator is
   run in parts (new WNTRSimulator per part, optional pickle round trip of the model) and the concatenated status tables
   must be the timeline of the uninterrupted semantics.
T (general networks): the concatenated rows of the parts vs the rows of the single run, compared by TLC (Agree.tla):
   same times, strictly increasing, restart at the next hydraulic step, values equal."""
import concurrent.futures as cf
import copy
import pickle
import random
import common
import c04
import hyd
import netgen
import simnet


def run_in_parts(w, wn, pauses, dur, do_pickle, **kw):
    """returns (list of result objects, final wn)"""
    res = []
    for d in list(pauses) + [dur]:
        wn.options.time.duration = d
        sim = w.sim.WNTRSimulator(wn)
        import warnings
        with warnings.catch_warnings():
            warnings.simplefilter("ignore")
            r = sim.run_sim(**kw)
        res.append(r)
        if do_pickle:
            wn = pickle.loads(pickle.dumps(wn))
    return res, wn


def observe_paused(scn):
    w = common.import_wntr()
    try:
        wn = simnet.time_family_network(w, scn)
        parts, _ = run_in_parts(w, wn, scn["pauses"], scn["Dur"], scn.get("pickle", False))
        times, st = [], []
        n = len(scn["init"])
        for r in parts:
            df = r.link["status"]
            times += [int(t) for t in df.index]
            st += [[int(df["P%d" % k].iloc[i]) for k in range(1, n + 1)] for i in range(len(df.index))]
        return {"id": scn["id"], "times": times, "st": st, "err": any(r.error_code is not None for r in parts)}
    except Exception as e:
        return {"id": scn["id"], "exc": "%s: %s" % (type(e).__name__, str(e)[:200])}


def general_case(s):
    """uninterrupted vs paused run of a netgen scenario -> Agree.tla case (or None)"""
    w = common.import_wntr()
    try:
        wn = simnet.build(w, s)
        try:
            ru, _ = simnet.run_wntr(w, wn, HW_approx=s["hw"])
        except (RuntimeError, ValueError):
            return None      # the uninterrupted run itself cannot be solved (ill-posed valve arrangement, ...): C16's business
        if ru.error_code is not None:
            return None
        wn2 = simnet.build(w, s)
        parts, _ = run_in_parts(w, wn2, s["pauses"], s["Dur"], s.get("pickle", False), HW_approx=s["hw"])
        if any(r.error_code is not None for r in parts):
            return None      # convergence depends on the starting point of the Newton iteration: not asserted here
    except Exception as e:
        return {"exc": "%s: %s" % (type(e).__name__, str(e)[:160]), "scn": s}

    def rows(results):
        out = []
        for r in results:
            for i, t in enumerate(r.node["head"].index):
                num = {}
                for n in s["nodes"]:
                    num["h_" + n["name"]] = float(r.node["head"][n["name"]].iloc[i])
                    num["d_" + n["name"]] = float(r.node["demand"][n["name"]].iloc[i])
                for l in s["links"]:
                    num["q_" + l["name"]] = float(r.link["flowrate"][l["name"]].iloc[i])
                out.append({"t": int(t), "num": {k: common.num(v) for k, v in num.items()},
                            "st": {l["name"]: int(r.link["status"][l["name"]].iloc[i]) for l in s["links"]}})
        return out
    a, b = rows([ru]), rows(parts)
    H = s["H"]
    # the open pump-reverse finding (C02) gives such steps two solutions; which one Newton finds depends on its starting point
    pumps = [l["name"] for l in s["links"] if l["type"] in ("headpump", "powerpump")]
    s["pump_reverse"] = any(float(common.unnum(r["num"]["q_" + p])) < -2.83168e-6 and r["st"][p] != 0 for r in a + b for p in pumps)
    return {"clause": "C10.concat_equal", "clause2": "C10.no_revisit", "clause3": "C10.resume_at_next_step",
            "a": a, "b": b, "atol": common.num(2e-4), "rtol": common.num(1e-4), "qsmall": common.num(1e-4),
            "numkeys": sorted(a[0]["num"]) if a else [], "stkeys": sorted(a[0]["st"]) if a else [],
            "boundary": [] if s.get("RepStep") else [p + H for p in s["pauses"] if p + H <= s["Dur"]], "scn": s}


def main(tier, replay):
    ck = common.Check("C10", "model_checking", tier)
    rnd = random.Random(common.SEED + 1010)
    # ---------------- time family with pauses (M + R)
    if replay and "scn" in common.load_replay(replay)["detail"] and "init" in common.load_replay(replay)["detail"]["scn"]:
        scns = [common.load_replay(replay)["detail"]["scn"]]
    elif replay:
        scns = []
    else:
        pool = []
        for o in c04.options_grid():
            for b in list(c04.s1_bodies())[::3] + list(c04.s1b_bodies())[::4]:
                s = dict(o); s.update(copy.deepcopy(b)); pool.append(s)
        rnd.shuffle(pool)
        n1, n2 = (500, 300) if tier == "quick" else (8000, 8000)
        scns = pool[:n1] + c04.s2_random(rnd, n2)
        for s in scns:
            grid = list(range(0, s["Dur"], s["H"]))
            k = rnd.choice([1, 1, 2, 3])
            # half of the pause points sit right before an event of the schedule (the last grid time <= a threshold)

            def thresholds(c):
                return [c["thr"]] if c["op"] == "atom" else thresholds(c["a"]) + thresholds(c["b"])
            thr = [c["thr"] if c["kind"] == "sim" else (c["thr"] - s["Start"]) % 86400 for c in s["ctl"]]
            for r in s["rules"]:
                thr += thresholds(r["cond"])
            near = sorted({(t // s["H"]) * s["H"] for t in thr if 0 <= t < s["Dur"]})
            ps = set()
            while len(ps) < min(k, len(grid)):
                ps.add(rnd.choice(near) if near and rnd.random() < 0.5 else rnd.choice(grid))
            s["pauses"] = sorted(ps)
            s["pickle"] = rnd.random() < 0.5
    for i, s in enumerate(scns):
        s["id"] = i + 1
    if scns:
        exp = c04.expected_from_spec(scns, ck)
        det = [s for s in scns if exp[s["id"]]["det"]]
        for s in det:
            if not exp[s["id"]]["ok"]:
                tag = " [eq-atom window differs]" if c04.eq_preempted(s, exp[s["id"]]["mt"]) else ""
                ck.violation("C10.model_refines", c04.shape(s) + tag + " pauses=%s" % s["pauses"], {"scn": s})
        with cf.ProcessPoolExecutor(max_workers=common.NCPU) as ex:
            obs = list(ex.map(observe_paused, det, chunksize=16))
        for s, o in zip(det, obs):
            tag = " [eq-atom window differs]" if c04.eq_preempted(s, sorted(set(o.get("times", [])) | set(exp[s["id"]]["mt"]))) else ""
            for clause, detail in c04.compare(s, exp[s["id"]], o):
                clause = {"C04.timeline": "C10.concat_equal", "C04.partial_step": "C10.concat_equal",
                          "C04.run": "C10.run"}.get(clause, clause)
                if "not increasing" in detail:
                    clause = "C10.no_revisit"
                ck.violation(clause, "%s%s pauses=%s pickle=%s :: %s" % (c04.shape(s), tag, s["pauses"], s["pickle"], detail),
                             {"scn": s, "expected": exp[s["id"]], "observed": o})
            ck.nontrivial(c04.shape(s) + str(s["pauses"]))
            ck.count("time_family_runs")
            if s["rules"]:
                ck.count("time_family_runs_with_rules")
            if s["pickle"]:
                ck.count("runs_with_pickle")
            if len(s["pauses"]) > 1:
                ck.count("runs_with_several_pauses")
        ck.cov["traces_validated_against_impl"] += len(det)
    # ---------------- general networks (T)
    if replay and scns:
        gens = []
    elif replay:
        gens = [common.load_replay(replay)["detail"]["scn"]]
    else:
        gens = []
        for i in range(90 if tier == "quick" else 2500):
            s = netgen.gen(rnd, 5000 + i, tank_bias=(i % 2 == 0))
            grid = list(range(0, s["Dur"], s["H"]))
            s["pauses"] = sorted(rnd.sample(grid, min(rnd.choice([1, 1, 2]), len(grid))))
            s["pickle"] = rnd.random() < 0.5
            if i % 4 == 1:
                # reports every second hydraulic step: the continued run must stay on the absolute report grid
                s["all"] = False
                s["RepStep"] = 2 * s["H"]
            gens.append(s)
        # schedules that cut junctions off and reconnect them (C09's multigraphs), paused so that a part ends with junctions
        # isolated and the next part starts exactly at the step that reconnects them (and the other way round)
        import c09
        import c02
        for i in range(60 if tier == "quick" else 1500):
            s = c09.multigraph_scenario(rnd, 7000 + i)
            H = s["H"]
            if i % 2 == 0:
                # a dead-end junction behind one pipe that is closed (from the start or at t1) and re-opened at theta
                s["nodes"].append(c02.junction("JD", 2.5, [{"base": 0.002, "pat": ""}]))
                s["links"].append({"name": "PD", "type": "pipe", "a": rnd.choice(["R0", "J0"]), "b": "JD", "len": 200.0, "diam": 0.3,
                                   "rough": 100.0, "minor": 0.0, "cv": False, "init": rnd.choice([0, 1])})
                k = len(s["links"])
                theta = H * rnd.randint(2, s["Dur"] // H - 1)
                if s["links"][-1]["init"]:
                    s["ctl"].append({"kind": "sim", "thr": H * rnd.randint(0, theta // H - 1), "rep": 0, "link": k, "val": 0, "prio": 3})
                s["ctl"].append({"kind": "sim", "thr": theta, "rep": 0, "link": k, "val": 1, "prio": 3})
            grid = [t for t in range(0, s["Dur"], H)]
            before = sorted({(c["thr"] // H) * H - (H if c["thr"] % H == 0 else 0) for c in s["ctl"]} & set(grid))
            s["pauses"] = sorted(set(rnd.sample(before, min(len(before), rnd.choice([1, 2]))))) if before else [rnd.choice(grid)]
            s["pickle"] = rnd.random() < 0.5
            s["tag"] = "isolation-schedule"
            gens.append(s)
    if gens:
        with cf.ProcessPoolExecutor(max_workers=common.NCPU) as ex:
            cases = [c for c in ex.map(general_case, gens, chunksize=4) if c is not None]
        good = [c for c in cases if "exc" not in c]
        for c in cases:
            if "exc" in c:
                ck.violation("C10.run", "%s :: %s" % (" ".join(sorted(netgen.features_of(c["scn"]))), c["exc"]), {"scn": c["scn"]})
        verdicts = common.run_cases("Agree", [{k: v for k, v in c.items() if k != "scn"} for c in good], check=ck)
        for gi, payload in verdicts:
            s = good[gi]["scn"]
            for cl in common.parse_set(payload):
                ck.violation(cl, "%s%s pauses=%s pickle=%s%s" % (s.get("tag", "") + " " if s.get("tag") else "",
                                                                 " ".join(sorted(netgen.features_of(s))), s["pauses"], s["pickle"],
                                                                 " [WNTR reports reverse flow through an open pump]" if s.get("pump_reverse") else ""),
                             {"scn": s})
        for c in good:
            ck.nontrivial(" ".join(sorted(netgen.features_of(c["scn"]))) + str(c["scn"]["pauses"]))
            ck.count("general_runs")
            ck.count("general_rows", len(c["a"]))
        ck.cov["traces_validated_against_impl"] += len(good)
        if good and not replay:
            bad = copy.deepcopy({k: v for k, v in good[0].items() if k != "scn"})
            bad["b"] = bad["b"][:1] + bad["b"]          # a revisited time
            if not common.run_cases("Agree", [bad], nproc=1):
                raise common.MachineryError("binding self-test: revisited row accepted")
    ck.cov["evaluations"] = ck.cov["counters"].get("time_family_runs", 0) + ck.cov["counters"].get("general_runs", 0)
    ck.cov["rule"] = ("time family: control/rule schedules of C04 (S1, S1b, S2) with 1-3 pause points on the hydraulic grid, with and "
                      "without pickling the model between the parts; general networks (tanks, pumps, valves, leaks, level "
                      "controls by tank limits) with 1-2 pauses; distinct by scenario structure and pause points")
    ck.sample({"time_family_scenario": scns[0] if scns else None})
    ck.assumptions += ["pause points are on the hydraulic grid", "two converged solutions of one step may differ by the solver tolerance (max residual 1e-6 m), which in flat regions of the head-flow laws is ~1e-5..1e-4 m3/s: values compared at 2e-4 absolute + 1e-4 relative; a status difference is tolerated only on links carrying < 1e-4 m3/s in both runs"]
    return ck.finish()

"""Shared machinery for the /verif checks: TLC runner, extension rebuild, Dec encoding,
verdicts, evidence, known findings.  Python: /venv/bin/python (has wntr editable -> /repo)."""
import atexit
import hashlib
import json
import os
import re
import shutil
import subprocess
import sys
import sysconfig
import tempfile
import time

VERIF = os.path.dirname(os.path.dirname(os.path.abspath(__file__)))
REPO = os.environ.get("VERIF_REPO", "/repo")
SPEC = os.path.join(VERIF, "spec")
CACHE = os.path.join(VERIF, ".cache")
EVID = os.path.join(VERIF, "evidence")
REPLAYS = os.path.join(VERIF, "replays")
TLA_CP = "/opt/veriftools/tla/tla2tools.jar:/opt/veriftools/tla/CommunityModules-deps.jar"
SEED = int(os.environ.get("VERIF_SEED", "0") or 0)
NCPU = min(16, os.cpu_count() or 1)


class MachineryError(Exception):
    pass


# ----------------------------------------------------------------------------- scratch
_scratch = None


def scratch():
    global _scratch
    if _scratch is None:
        _scratch = tempfile.mkdtemp(prefix="verif_")
        atexit.register(lambda: shutil.rmtree(_scratch, ignore_errors=True))
    return _scratch


def subdir(name):
    d = os.path.join(scratch(), name)
    os.makedirs(d, exist_ok=True)
    return d


# ----------------------------------------------------------------------------- wntr import
_EXTS = [
    ("wntr.sim.aml._evaluator", "wntr/sim/aml", ["evaluator.cpp", "evaluator_wrap.cpp"],
     ["evaluator.hpp"]),
    ("wntr.sim.network_isolation._network_isolation", "wntr/sim/network_isolation",
     ["network_isolation.cpp", "network_isolation_wrap.cpp"], ["network_isolation.hpp"]),
]


def _build_ext(modname, rel, srcs, hdrs):
    import numpy
    d = os.path.join(REPO, rel)
    h = hashlib.sha256()
    for f in srcs + hdrs:
        with open(os.path.join(d, f), "rb") as fh:
            h.update(fh.read())
    h.update(sys.version.encode())
    key = h.hexdigest()[:20]
    outdir = os.path.join(CACHE, "ext", key)
    suffix = sysconfig.get_config_var("EXT_SUFFIX")
    out = os.path.join(outdir, modname.split(".")[-1] + suffix)
    if not os.path.exists(out):
        os.makedirs(outdir, exist_ok=True)
        tmp = out + ".tmp%d" % os.getpid()
        cmd = ["g++", "-O2", "-shared", "-fPIC", "-std=c++11", "-w",
               "-I" + sysconfig.get_paths()["include"], "-I" + numpy.get_include(), "-I" + d,
               "-o", tmp] + [os.path.join(d, s) for s in srcs]
        r = subprocess.run(cmd, capture_output=True, text=True)
        if r.returncode != 0:
            raise MachineryError("extension build failed for %s:\n%s" % (modname, r.stderr[-2000:]))
        os.replace(tmp, out)
    return out


def build_exts():
    return {m: _build_ext(m, rel, s, h) for (m, rel, s, h) in _EXTS}


_wntr = None


def import_wntr():
    """import wntr from REPO with both C++ extensions rebuilt from REPO's current sources."""
    global _wntr
    if _wntr is not None:
        return _wntr
    import importlib.machinery
    import importlib.util
    import warnings
    warnings.filterwarnings("ignore")
    if REPO not in sys.path:
        sys.path.insert(0, REPO)
    for modname, path in build_exts().items():
        loader = importlib.machinery.ExtensionFileLoader(modname, path)
        spec = importlib.util.spec_from_loader(modname, loader, origin=path)
        mod = importlib.util.module_from_spec(spec)
        sys.modules[modname] = mod
        loader.exec_module(mod)
    import logging
    logging.disable(logging.CRITICAL)
    import wntr
    if not os.path.abspath(wntr.__file__).startswith(os.path.abspath(REPO)):
        raise MachineryError("wntr imported from %s, not %s" % (wntr.__file__, REPO))
    _wntr = wntr
    return wntr


# ----------------------------------------------------------------------------- Dec encoding
B = 10000
SCALE = 12  # 1e-12 resolution: 3 limbs of fraction


def dec_from_int(i):
    """scaled integer -> {"n":bool, "m":[limbs little endian]}"""
    n = i < 0
    i = abs(i)
    m = []
    while i:
        m.append(i % B)
        i //= B
    return {"n": bool(n and m), "m": m}


def dec(x, scale=SCALE):
    """float/Fraction/Decimal/int -> Dec at 10**-scale resolution (round half even on repr)."""
    from fractions import Fraction
    fr = Fraction(x) if not isinstance(x, Fraction) else x
    v = fr * (10 ** scale)
    i = int(round(v))
    return dec_from_int(i)


def dec_to_float(d, scale=SCALE):
    v = 0
    for k, limb in enumerate(d["m"]):
        v += limb * B ** k
    return (-v if d["n"] else v) / 10.0 ** scale


# ----------------------------------------------------------------------------- TLC
class TLCResult:
    def __init__(self):
        self.rc = None
        self.out = ""
        self.generated = 0
        self.distinct = 0
        self.prints = []     # parsed PrintT payload strings
        self.wall = 0.0
        self.ok = False
        self.violation = None  # text of invariant/property violation if any


_PRINT_RE = re.compile(r'^<<"(\w+)", ')


def stage_specs(dst):
    for f in os.listdir(SPEC):
        if f.endswith(".tla"):
            shutil.copy(os.path.join(SPEC, f), os.path.join(dst, f))


def run_tlc(module, cfg_text, workers=1, simulate=None, depth=None, seed=None, env=None,
            timeout=3600, workdir=None, deadlock=False, extra=None, coverage=False,
            jvm=None, continue_=False):
    """Run TLC on spec/<module>.tla with the given cfg text. Returns TLCResult.
    Raises MachineryError on TLC crashes / parse errors / timeouts."""
    wd = workdir or tempfile.mkdtemp(prefix="tlc_", dir=scratch())
    stage_specs(wd)
    cfg = os.path.join(wd, module + ".cfg")
    with open(cfg, "w") as f:
        f.write(cfg_text)
    meta = os.path.join(wd, "meta")
    cmd = ["java", "-XX:+UseSerialGC", "-Xss16m", "-Xmx2g", "-XX:CICompilerCount=2", "-XX:+TieredCompilation"] + (jvm or []) + ["-cp", TLA_CP, "tlc2.TLC",
           "-workers", str(workers), "-metadir", meta, "-noGenerateSpecTE", "-config", cfg]
    if not deadlock:
        cmd += ["-deadlock"]
    if simulate is not None:
        cmd += ["-simulate", simulate]
    if depth is not None:
        cmd += ["-depth", str(depth)]
    if seed is not None:
        cmd += ["-seed", str(seed)]
    if coverage:
        cmd += ["-coverage", "1"]
    if continue_:
        cmd += ["-continue"]
    if extra:
        cmd += extra
    cmd += [os.path.join(wd, module + ".tla")]
    e = dict(os.environ)
    if env:
        e.update({k: str(v) for k, v in env.items()})
    t0 = time.time()
    try:
        p = subprocess.run(cmd, cwd=wd, capture_output=True, text=True, env=e, timeout=timeout)
    except subprocess.TimeoutExpired:
        raise MachineryError("TLC timeout (%ss) on %s" % (timeout, module))
    r = TLCResult()
    r.wall = time.time() - t0
    r.rc = p.returncode
    r.out = p.stdout + p.stderr
    m = None
    for m in re.finditer(r"(\d+) states generated, (\d+) distinct states found", r.out):
        pass
    if m:
        r.generated, r.distinct = int(m.group(1)), int(m.group(2))
    else:
        m2 = None
        for m2 in re.finditer(r"(\d+) states checked", r.out):
            pass
        if m2:
            r.generated = r.distinct = int(m2.group(1))
    if "is violated" in r.out or "Invariant" in r.out and "violated" in r.out:
        r.violation = r.out
    bad = ("Parsing or semantic analysis failed", "TLC threw an unexpected exception",
           "Error: TLC", "java.lang.", "Unknown operator", "was not enabled", "Overflow when")
    r.ok = (p.returncode == 0)
    if p.returncode != 0 and r.violation is None:
        # rc 0 ok, 12 = safety violation, 13 liveness; others = errors
        raise MachineryError("TLC failed rc=%s on %s:\n%s" % (p.returncode, module, r.out[-3000:]))
    if r.violation is None:
        for b in bad:
            if b in r.out and "Error" in r.out:
                raise MachineryError("TLC error on %s:\n%s" % (module, r.out[-3000:]))
    r.prints = parse_prints(p.stdout)
    if workdir is None:
        shutil.rmtree(wd, ignore_errors=True)
    return r


def parse_prints(out):
    """PrintT(<<"TAG", ...>>) output -> list of (tag, payload).  TLC pretty-prints long values over
    several lines, so a value is collected by bracket matching and re-joined with single spaces.
    A payload that is one TLA+ string holding JSON (ToJson) is decoded."""
    res = []
    buf, depth = None, 0
    for line in out.splitlines():
        if buf is None:
            if not (line.startswith('<<"') or line.startswith('<< "')):
                continue
            buf, depth = [], 0
        buf.append(line.strip())
        instr = False
        prev = ""
        for ch in line:
            if ch == '"' and prev != "\\":
                instr = not instr
            elif not instr:
                if ch in "<[{(":
                    depth += 1
                elif ch in ">]})":
                    depth -= 1
            prev = ch
        if depth <= 0:
            text = " ".join(buf)
            buf = None
            m = re.match(r'^<<\s*"(\w+)",\s*(.*?)\s*>>$', text)
            if not m:
                continue
            tag, payload = m.group(1), m.group(2)
            ms = re.match(r'^"(.*)"$', payload)
            if ms and not re.search(r'(?<!\\)",', payload):
                body = ms.group(1).replace('\\"', '"').replace("\\\\", "\\")
                try:
                    res.append((tag, json.loads(body)))
                    continue
                except Exception:
                    pass
            res.append((tag, payload))
    return res


def sany(module):
    cmd = ["java", "-cp", TLA_CP, "tla2sany.SANY", os.path.join(SPEC, module + ".tla")]
    p = subprocess.run(cmd, cwd=SPEC, capture_output=True, text=True)
    ok = p.returncode == 0 and "Semantic errors" not in p.stdout and "Parse Error" not in p.stdout \
        and "Fatal errors" not in p.stdout and "Could not" not in p.stdout
    return ok, p.stdout + p.stderr


# ----------------------------------------------------------------------------- verdict / evidence
class Check:
    """One property check run: collects coverage, violations, known findings; writes evidence."""

    def __init__(self, pid, level, tier):
        self.pid = pid
        self.level = level
        self.tier = tier
        self.t0 = time.time()
        self.cov = {"states": 0, "transitions": 0, "traces_validated_against_impl": 0,
                    "evaluations": 0, "distinct_nontrivial": 0, "samples": [], "rule": "",
                    "counters": {}}
        self.assumptions = []
        self.violations = []     # list of dict(clause, sig, detail)
        self.known_hit = []
        self._known = load_known(pid)
        self._distinct = set()

    # coverage helpers
    def add_tlc(self, r):
        self.cov["states"] += r.distinct
        self.cov["transitions"] += r.generated

    def count(self, name, k=1):
        self.cov["counters"][name] = self.cov["counters"].get(name, 0) + k

    def sample(self, obj, cap=4):
        if len(self.cov["samples"]) < cap:
            self.cov["samples"].append(obj)

    def nontrivial(self, sig):
        self._distinct.add(sig if isinstance(sig, str) else json.dumps(sig, sort_keys=True, default=str))

    # verdicts
    def violation(self, clause, sig, detail):
        """clause: 'Cxx.name'; sig: stable string identifying the failing input (used by the
        known-findings file); detail: JSON-able replay payload."""
        for k in self._known:
            if k.get("status") == "open" and k["clause"] == clause and re.search(k["match"], sig):
                if k["id"] not in [x["id"] for x in self.known_hit]:
                    self.known_hit.append(k)
                return False
        self.violations.append({"clause": clause, "sig": sig, "detail": detail})
        return True

    def vacuity(self, msg):
        """a mandatory antecedent was never exercised: machinery failure - unless violations were found, which are
        reported instead (a broken build typically makes scenarios fail AND starves the counters)"""
        if not self.violations:
            raise MachineryError(msg)

    def finish(self, extra_cov=None):
        self.cov["distinct_nontrivial"] = len(self._distinct)
        if extra_cov:
            self.cov.update(extra_cov)
        os.makedirs(EVID, exist_ok=True)
        ev = {"property_id": self.pid, "tier": self.tier, "seed": SEED, "level": self.level,
              "coverage": self.cov, "assumptions": self.assumptions,
              "wall_s": round(time.time() - self.t0, 2), "violations": len(self.violations)}
        if self.known_hit:
            ev["coverage"]["known_findings_hit"] = [k["id"] for k in self.known_hit]
        with open(os.path.join(EVID, self.pid + ".json"), "w") as f:
            json.dump(ev, f, indent=1, default=str)
        for k in self.known_hit:
            print("KNOWN-FINDING: property=%s %s" % (self.pid, k["what"]))
        if self.violations:
            os.makedirs(os.path.join(REPLAYS, self.pid), exist_ok=True)
            seen = set()
            cap = int(os.environ.get("VERIF_MAXVIOL", "12"))
            # one replay per distinct (clause, signature), most frequent signatures first
            order = {}
            for v in self.violations:
                order.setdefault((v["clause"], v["sig"]), v)
            for v in list(order.values())[:cap]:
                h = hashlib.sha256(json.dumps([v["clause"], v["sig"]], default=str).encode()).hexdigest()[:12]
                if h in seen:
                    continue
                seen.add(h)
                path = os.path.join(REPLAYS, self.pid, h + ".json")
                with open(path, "w") as f:
                    json.dump(v, f, indent=1, default=str)
                print("VIOLATION property=%s replay=%s clause=%s sig=%s" % (self.pid, path, v["clause"], str(v["sig"])[:200]))
            if len(self.violations) > len(seen):
                print("... %d violations in total, %d distinct signatures" % (len(self.violations), len(order)))
            return 1
        print("OK property=%s tier=%s wall=%.1fs states=%d traces=%d evals=%d nontrivial=%d" % (
            self.pid, self.tier, time.time() - self.t0, self.cov["states"],
            self.cov["traces_validated_against_impl"], self.cov["evaluations"],
            self.cov["distinct_nontrivial"]))
        return 0


def load_known(pid):
    p = os.path.join(VERIF, "known_findings.json")
    if not os.path.exists(p):
        return []
    with open(p) as f:
        d = json.load(f)
    return [k for k in d.get("findings", []) if k["property"] == pid]


def chunks(lst, n):
    k = max(1, (len(lst) + n - 1) // n)
    return [lst[i:i + k] for i in range(0, len(lst), k)]


def tla_str(s):
    return '"' + s.replace("\\", "\\\\").replace('"', '\\"') + '"'


def to_tla(v):
    """Python value -> TLA+ expression text (ints, bools, str, list->tuple, dict->record, set)."""
    if isinstance(v, bool):
        return "TRUE" if v else "FALSE"
    if isinstance(v, int):
        return str(v)
    if isinstance(v, str):
        return tla_str(v)
    if isinstance(v, (list, tuple)):
        return "<<" + ", ".join(to_tla(x) for x in v) + ">>"
    if isinstance(v, (set, frozenset)):
        return "{" + ", ".join(sorted(to_tla(x) for x in v)) + "}"
    if isinstance(v, dict):
        if not v:
            return "<<>>"
        return "[" + ", ".join("%s |-> %s" % (k, to_tla(x)) for k, x in v.items()) + "]"
    raise TypeError(type(v))


# ----------------------------------------------------------------------------- numbers for Dec.tla
def num(x):
    """Python number -> record for Dec.tla!Num: value = (-1)^n * M * 10^e, M as base-1e4 limbs.
    floats use their shortest round-trip repr (exactly what Python prints)."""
    from decimal import Decimal
    from fractions import Fraction
    if isinstance(x, bool):
        x = int(x)
    if isinstance(x, int):
        d = Decimal(x)
    elif isinstance(x, Decimal):
        d = x
    elif isinstance(x, Fraction):
        den, k = x.denominator, 0
        while den % 10 == 0:
            den //= 10
        while den % 2 == 0:
            den //= 2
        while den % 5 == 0:
            den //= 5
        if den == 1:       # finite decimal: exact
            k = 0
            while (x * 10 ** k).denominator != 1:
                k += 1
            iv = int(x * 10 ** k)
            d = Decimal((1 if iv < 0 else 0, tuple(int(c) for c in str(abs(iv))), -k))
        else:              # not a finite decimal: 40 significant digits
            import decimal
            with decimal.localcontext() as ctx:
                ctx.prec = 40
                d = Decimal(x.numerator) / Decimal(x.denominator)
    else:
        f = float(x)
        if f != f or f in (float("inf"), float("-inf")):
            raise ValueError("non-finite value cannot be logged: %r" % (x,))
        d = Decimal(repr(f))
    sign, digits, exp = d.as_tuple()
    i = int("".join(map(str, digits))) if digits else 0
    while i and i % 10 == 0:
        i //= 10
        exp += 1
    m = []
    while i:
        m.append(i % B)
        i //= B
    if not m:
        return {"n": False, "m": [], "e": 0}
    return {"n": bool(sign), "m": m, "e": int(exp)}


def unnum(r):
    from fractions import Fraction
    v = 0
    for k, limb in enumerate(r["m"]):
        v += limb * B ** k
    v = Fraction(v) * Fraction(10) ** r["e"]
    return -v if r["n"] else v


def run_cases(module, cases, check=None, nproc=None, cfg_extra="", env=None, timeout=3600,
              key="CASES", wrap=True):
    """Validate a batch of recorded cases with TLC: spec/<module>.tla reads IOEnv.CASES, walks the
    batch (one state per case) and reports verdicts with PrintT(<<"VIOL", caseIndex, ...>>).
    Returns list of (global_case_index, payload) verdicts; raises MachineryError unless every case
    was consumed (POSTCONDITION Done)."""
    import concurrent.futures as cf
    if not cases:
        return []
    nproc = nproc or NCPU
    parts = chunks(list(range(len(cases))), min(nproc, len(cases)))
    cfg = "SPECIFICATION Spec\nINVARIANT Report\nPOSTCONDITION Done\nCHECK_DEADLOCK FALSE\n" + cfg_extra

    def one(idx):
        wd = tempfile.mkdtemp(prefix="cases_", dir=scratch())
        path = os.path.join(wd, "cases.json")
        with open(path, "w") as f:
            json.dump([cases[j] for j in idx] if wrap else cases[idx[0]], f)
        e = {key: path}
        if env:
            e.update(env)
        r = run_tlc(module, cfg, workers=1, env=e, timeout=timeout, workdir=wd)
        if "Done" in r.out and "violated" in r.out or r.violation:
            raise MachineryError("trace not fully consumed by %s:\n%s" % (module, r.out[-3000:]))
        shutil.rmtree(wd, ignore_errors=True)
        return idx, r

    verdicts = []
    with cf.ThreadPoolExecutor(max_workers=nproc) as ex:
        for idx, r in ex.map(one, parts):
            if check is not None:
                check.add_tlc(r)
            for tag, payload in r.prints:
                if tag == "VIOL":
                    verdicts.append((idx, payload))
    out = []
    for idx, payload in verdicts:
        # payload is the raw text after the tag: "<local index>, rest"
        m = re.match(r"\s*(\d+)\s*,?\s*(.*)$", payload if isinstance(payload, str) else str(payload))
        if not m:
            raise MachineryError("unparseable verdict %r" % (payload,))
        out.append((idx[int(m.group(1)) - 1], m.group(2)))
    return out


def parse_set(payload):
    """'{"a", "b"}' (TLA+ set of strings as printed by TLC) -> ['a', 'b']"""
    return re.findall(r'"([^"]+)"', payload)


def load_replay(path):
    with open(path) as f:
        return json.load(f)
